/-
  C02 — `$ref` is transparent: a reference behaves as the schema it designates.
  Property theorems only; helper lemmas live in JS/Proofs/Ref.lean and JS/Proofs/ValidRef.lean.

  What is proved: (1) evaluating a reference object IS evaluating the designated schema, in the
  designated schema's scope, with identical error records (no schema-path element is added,
  nothing is overwritten) and sibling keywords ignored; (2) the designated schema is found by
  RFC 3986 resolution of the reference against the base URI in effect (the `urljoin` oracle applied
  to the top of the scope stack), then the store lookup under the normalised, defragmented URI,
  then RFC 6901 evaluation of the fragment (C14's `resolve_eq_spec`); (3) the base URI in effect
  while a subschema is evaluated is the join of the ids on the evaluation path, and is restored
  afterwards (stack discipline); (4) globally (`ref_verdict_agrees`): on every reference domain the
  verdict is that of the specification with references `Spec.validRN`, for every placement, chain
  and recursion. The statement about error LOCATIONS ("as the schema with every reference written
  out") is decided by the correspondence and by the inlining monitor, not by a theorem (DESIGN §6 C02).
-/
import JS.Proofs.Ref
import JS.Proofs.ValidRef
import JS.Props.C15
namespace JS.Props.C02
open JS

/-- **A reference object is its target.** For the four drafts: with a (string) `$ref` present —
    whatever else is written next to it, an id included: nothing is pushed for the object itself — the
    result of evaluating the schema object is exactly: resolve the reference (an exception there
    ends the run before anything is pushed), evaluate the designated schema with the resolved URL
    as scope, pop. The errors are the target's errors with nothing added to their paths. -/
theorem ref_is_target (env : Env) (impl : FmtImpl) (d : Draft) (fc : Option FormatChecker) (rec : Rec)
    (kvs : List (Str × Json)) (r : Str) (inst : Json) (b : Option Nat) (st : RState)
    (href : Json.lookup (skey "$ref") kvs = some (.str r)) :
    evalStep env impl (d.cfg fc) rec inst (.obj kvs) b st =
      (match resolve env r st with
       | (.ok (url, target), st1) =>
           mapErrs (stamp (skey "$ref") (.str r) inst (.obj kvs)) (withScope env url (rec inst target)) b st1
       | (.raise e, st1) => ⟨[], .raised e, st1⟩
       | (.miss q, st1) => ⟨[], .miss q, st1⟩) := by
  have hr : Json.hasKey (skey "$ref") kvs = true := by unfold Json.hasKey; rw [href]; rfl
  rw [evalStep_obj_noId env impl (d.cfg fc) rec kvs inst (.inr hr),
    schemaBody_ref env impl d fc rec kvs r inst href]
  dsimp only [mapErrs]
  rw [kwRef_str]
  rcases resolve env r st with ⟨⟨url, target⟩ | e | q, st1⟩ <;> rfl

/-- errors coming out of a reference keep their own records: `stamp` for `$ref` changes nothing in
    an error whose fields are already set (as every error of the evaluator is, C06 `info_set`) -/
theorem ref_errors_unchanged (r inst schema : Json) (e : Err) (h : e.info.isSome = true) :
    stamp (skey "$ref") r inst schema e = e := by
  exact stamp_ref_of_info r inst schema e h

/-- **The designated schema** (RFC 3986, then RFC 6901). If joining the reference with the base
    URI in effect gives `url`, whose defragmented, normalised form `k` names the document `doc` in
    the store, then — memo hit or miss, whatever the memo holds provided it is sound for this URL —
    the reference resolves to `url` and to the value the fragment's pointer addresses in `doc`,
    or fails with `RefResolutionError` when it addresses nothing; no retrieval happens. -/
theorem designated_schema (env : Env) (keep : Char → Bool) (ref url u k : Str) (toks : List Str)
    (doc : Json) (st : RState)
    (hj : env.urljoin st.top ref = some url)
    (hd : env.urldefrag url = some (u, Spec.fragmentOf keep toks))
    (hn : env.urinorm u = some k) (hs : Json.lookup k st.store = some doc)
    (hmemo : Json.lookup url st.memo = none) :
    (resolve env ref st).1 =
      (match Spec.ptrEval doc toks with
       | some target => .ok (url, target)
       | none => .raise .refResolution)
    ∧ (resolve env ref st).2.fetchLog = st.fetchLog
    ∧ (resolve env ref st).2.store = st.store
    ∧ (resolve env ref st).2.scopes = st.scopes := by
  have hr : resolveFromUrl env url st = (fragRes doc (Spec.fragmentOf keep toks), st) := by
    simp only [resolveFromUrl, hd, hn, hs]
  unfold resolve
  simp only [hj, memoLookup_of_none hmemo, hr, fragRes, PointerProofs.resolve_eq_spec]
  cases Spec.ptrEval doc toks <;> exact ⟨rfl, rfl, rfl, rfl⟩

/-- the memo is transparent for documents in the store: a hit returns what a miss would compute,
    provided the memo only holds what `resolve` put there (`MemoSound`) -/
def MemoSound (env : Env) (st : RState) : Prop :=
  ∀ url v, Json.lookup url st.memo = some v →
    ∃ u frag k doc, env.urldefrag url = some (u, frag) ∧ env.urinorm u = some k
      ∧ Json.lookup k st.store = some doc ∧ resolveFragment doc frag = some v

theorem memo_hit_is_recomputation (env : Env) (ref url : Str) (v : Json) (st : RState)
    (hs : MemoSound env st) (hj : env.urljoin st.top ref = some url)
    (hm : Json.lookup url st.memo = some v) :
    (resolve env ref st).1 = .ok (url, v)
    ∧ ∃ u frag k doc, env.urldefrag url = some (u, frag) ∧ env.urinorm u = some k
        ∧ Json.lookup k st.store = some doc ∧ resolveFragment doc frag = some v := by
  refine ⟨?_, hs url v hm⟩
  unfold resolve
  simp only [hj, memoLookup_of_some hm]

/-! #### `MemoSound` is an invariant (with `cache_remote` on); `MemoBacked` always

`resolve` memoises exactly the value it computed from a store document or from a document it just
fetched.  The fetched document is written to the store only when `cacheRemote = true`, so
`MemoSound` ("backed by the store") is an invariant exactly under that switch — with it off it is
*not* (`memoSound_not_invariant_when_off`) — while the weaker `MemoBacked` ("backed by the store
or by a document this resolver fetched for that URI at an earlier attempt") is an invariant
unconditionally.  No hypothesis on the store is needed: `resolve` only ever writes a key that was
absent (C15 `store_grows_only`). -/

/-- a fresh resolver's (empty) memo is sound -/
theorem memoSound_fresh (env : Env) (st : RState) (h : st.memo = []) : MemoSound env st :=
  memoSoundS_nil env st h

/-- one `resolve` keeps the memo sound when remote documents are cached (and keeps the switch) -/
theorem memoSound_resolve (env : Env) (ref : Str) (st : RState)
    (hc : st.cacheRemote = true) (hs : MemoSound env st) :
    MemoSound env (resolve env ref st).2 ∧ (resolve env ref st).2.cacheRemote = true :=
  ((memoSoundInv env).resolve ref st ⟨hc, hs⟩).symm

/-- … and so does every evaluation, whatever fuel, budget and way of stopping … -/
theorem memoSound_eval (env : Env) (impl : FmtImpl) (cfg : Cfg) (fuel : Nat) (inst schema : Json)
    (b : Option Nat) (st : RState) (hc : st.cacheRemote = true) (hs : MemoSound env st) :
    MemoSound env (eval env impl cfg fuel inst schema b st).st
    ∧ (eval env impl cfg fuel inst schema b st).st.cacheRemote = true :=
  (keeps_eval (memoSoundInv env) impl cfg fuel inst schema b st ⟨hc, hs⟩).symm

/-- … and every history of operations on one validator, e.g. starting from a fresh resolver. -/
theorem memoSound_hist (env : Env) (impl : FmtImpl) (cfg : Cfg) (fuel : Nat) (schema : Json)
    (st : RState) (ops : List Op) (hc : st.cacheRemote = true) (hs : MemoSound env st) :
    MemoSound env (runHist env impl cfg fuel schema st ops).2 :=
  (keeps_runHist (memoSoundInv env) impl cfg fuel schema ops st ⟨hc, hs⟩).2

/-- with `cache_remote` off `MemoSound` is not preserved: a fetched document is memoised (through
    the value its fragment addresses) but never reaches the store -/
theorem memoSound_not_invariant_when_off :
    ∃ (env : Env) (ref : Str) (st : RState),
      st.cacheRemote = false ∧ MemoSound env st ∧ ¬ MemoSound env (resolve env ref st).2 :=
  ⟨MemoCex.env, [], MemoCex.st, rfl, MemoCex.sound_before, MemoCex.unsound_after⟩

/-- the unconditional invariant: every memo entry is what `resolve_from_url` computed from a
    document that is in the store now, or that this resolver retrieved for the entry's
    defragmented URI at an earlier attempt `n < clock` -/
def MemoBacked (env : Env) (st : RState) : Prop :=
  ∀ url v, Json.lookup url st.memo = some v →
    ∃ u frag k doc, env.urldefrag url = some (u, frag) ∧ env.urinorm u = some k
      ∧ (Json.lookup k st.store = some doc ∨ ∃ n, n < st.clock ∧ env.fetch n u = some (some doc))
      ∧ resolveFragment doc frag = some v

theorem memoSound_backed (env : Env) (st : RState) (h : MemoSound env st) : MemoBacked env st :=
  memoBackedS_of_sound h

theorem memoBacked_resolve (env : Env) (ref : Str) (st : RState) (hs : MemoBacked env st) :
    MemoBacked env (resolve env ref st).2 :=
  (memoBackedInv env).resolve ref st hs

theorem memoBacked_eval (env : Env) (impl : FmtImpl) (cfg : Cfg) (fuel : Nat) (inst schema : Json)
    (b : Option Nat) (st : RState) (hs : MemoBacked env st) :
    MemoBacked env (eval env impl cfg fuel inst schema b st).st :=
  keeps_eval (memoBackedInv env) impl cfg fuel inst schema b st hs

theorem memoBacked_hist (env : Env) (impl : FmtImpl) (cfg : Cfg) (fuel : Nat) (schema : Json)
    (st : RState) (ops : List Op) (hs : MemoBacked env st) :
    MemoBacked env (runHist env impl cfg fuel schema st ops).2 :=
  keeps_runHist (memoBackedInv env) impl cfg fuel schema ops st hs

/-- **The base URI in effect.** Evaluating a schema object with an id (and no `$ref` key) pushes `urljoin(top, id)`
    for exactly the duration of that object's evaluation: every keyword of the object (and, through
    them, every subschema) runs with that scope on top of the unchanged stack, and afterwards the
    stack is what it was. -/
theorem id_scopes_subschemas (env : Env) (impl : FmtImpl) (cfg : Cfg) (rec : Rec)
    (kvs : List (Str × Json)) (ident u : Str) (inst : Json) (b : Option Nat) (st : RState)
    (hid : Json.lookup cfg.idKey kvs = some (.str ident)) (hne : ident ≠ [])
    (hnr : Json.hasKey (skey "$ref") kvs = false)
    (hj : env.urljoin st.top ident = some u) :
    evalStep env impl cfg rec inst (.obj kvs) b st =
      (match schemaBody env impl cfg rec inst kvs b { st with scopes := u :: st.scopes } with
       | ⟨es, s, st'⟩ => ⟨es, s, { st' with scopes := st'.scopes.tail }⟩) := by
  rw [evalStep_obj_id env impl cfg rec kvs ident inst hid hne hnr]
  unfold withScope
  simp only [hj]

/-- a schema object without id — or with a `$ref` key — evaluates its keywords in the enclosing scope -/
theorem no_id_same_scope (env : Env) (impl : FmtImpl) (cfg : Cfg) (rec : Rec)
    (kvs : List (Str × Json)) (inst : Json) (b : Option Nat) (st : RState)
    (hid : Json.lookup cfg.idKey kvs = none ∨ Json.hasKey (skey "$ref") kvs = true) :
    evalStep env impl cfg rec inst (.obj kvs) b st = schemaBody env impl cfg rec inst kvs b st := by
  rw [evalStep_obj_noId env impl cfg rec kvs inst hid]

/-! ### The global statement: the verdict is that of the specification WITH references

`Spec.validRN` (JS.Spec.ValidRef) extends C01's specification by the drafts' two clauses about
references: a schema object with `$ref` is valid for exactly the instances its designated schema is
valid for (siblings ignored), and `id`/`$id` changes the base URI in effect below it. The
designated schema is `Spec.designated`: RFC 3986 join with the base in effect, the document the
URI stands for (store, else retrieval), RFC 6901 fragment. On every `Spec.RefDomain` — a set of
(base, schema) pairs closed under subschemas and designation, shaped as the draft prescribes —
and from every resolver state that lives in the world `base` (whatever it has learnt so far),
whenever the exhaustive run ends normally (no `RefResolutionError`, not out of fuel) it yields no
error exactly when the specification says valid, with any number of steps from `fuel` on. -/

/-- **C02, globally.** References (local, into store documents, retrieved, chained, recursive),
    nested `id`/`$id`, every placement, four drafts. (No totality assumption on the URI functions: the joins that
    arise succeed by `Spec.RefDomain.ident` and `.ref`.) -/
theorem ref_verdict_agrees (env : Env) (hre : Spec.RegexTotal env)
    (hset : Spec.SetOrderOk env) (hf : Props.C15.StableFetch env)
    (impl : FmtImpl) (d : Draft) (base : List (Str × Json)) (D : Str → Json → Bool)
    (hD : Spec.RefDomain env d base D)
    (top : Str) (s i : Json) (hs : D top s = true) (hwi : Spec.WF i = true)
    (fuel : Nat) (st : RState) (hst : Props.C15.SameWorld env base st st) (htop : st.top = top)
    (hdone : (eval env impl (d.cfg none) fuel i s none st).stop = .done) :
    ∀ m, fuel ≤ m →
      ((eval env impl (d.cfg none) fuel i s none st).errs = [] ↔ Spec.validRN env d base m top s i = true) := by
  intro m hm
  have hv := evalR_vd (impl := impl) hre hset hf hD fuel top s hs m hm i hwi st.scopes htop
  have he := (hv.done none st nofun ⟨(C15.sameWorld_iff.1 hst).left, rfl⟩ hdone).2.1
  rw [← he, List.isEmpty_iff]

/-- **C02, globally, on the wider domain** whose side conditions are read locally
    (`Spec.RefDomainL`: every `Spec.RefDomain` is one, and the bundled metaschemas — which no
    `RefDomain` contains, because they have properties NAMED `multipleOf`/`divisibleBy` — are: C11). -/
theorem ref_verdict_agrees_local (env : Env) (hre : Spec.RegexTotal env)
    (hset : Spec.SetOrderOk env) (hf : Props.C15.StableFetch env)
    (impl : FmtImpl) (d : Draft) (base : List (Str × Json)) (D : Str → Json → Bool)
    (hD : Spec.RefDomainL env d base D)
    (top : Str) (s i : Json) (hs : D top s = true) (hwi : Spec.WF i = true)
    (fuel : Nat) (st : RState) (hst : Props.C15.SameWorld env base st st) (htop : st.top = top)
    (hdone : (eval env impl (d.cfg none) fuel i s none st).stop = .done) :
    ∀ m, fuel ≤ m →
      ((eval env impl (d.cfg none) fuel i s none st).errs = [] ↔ Spec.validRN env d base m top s i = true) := by
  intro m hm
  have hv := evalRL_vd (impl := impl) hre hset hf hD fuel top s hs m hm i hwi st.scopes htop
  have he := (hv.done none st nofun ⟨(C15.sameWorld_iff.1 hst).left, rfl⟩ hdone).2.1
  rw [← he, List.isEmpty_iff]

/-- … hence the specification's answer has a limit and the verdict is that limit -/
theorem ref_verdict_limit (env : Env) (hre : Spec.RegexTotal env)
    (hset : Spec.SetOrderOk env) (hf : Props.C15.StableFetch env)
    (impl : FmtImpl) (d : Draft) (base : List (Str × Json)) (D : Str → Json → Bool)
    (hD : Spec.RefDomain env d base D)
    (top : Str) (s i : Json) (hs : D top s = true) (hwi : Spec.WF i = true)
    (fuel : Nat) (st : RState) (hst : Props.C15.SameWorld env base st st) (htop : st.top = top)
    (hdone : (eval env impl (d.cfg none) fuel i s none st).stop = .done) :
    Spec.ValidR env d base top s i ((eval env impl (d.cfg none) fuel i s none st).errs.isEmpty) := by
  refine ⟨fuel, fun m hm => ?_⟩
  have h := ref_verdict_agrees env hre hset hf impl d base D hD top s i hs hwi fuel st hst htop
    hdone m hm
  rw [Bool.eq_iff_iff, ← h, List.isEmpty_iff]

/-- `is_valid` (the run closed at the first error) gives the same verdict -/
theorem ref_isValid_agrees (env : Env) (hre : Spec.RegexTotal env)
    (hset : Spec.SetOrderOk env) (hf : Props.C15.StableFetch env)
    (impl : FmtImpl) (d : Draft) (base : List (Str × Json)) (D : Str → Json → Bool)
    (hD : Spec.RefDomain env d base D)
    (top : Str) (s i : Json) (hs : D top s = true) (hwi : Spec.WF i = true)
    (fuel : Nat) (st : RState) (hst : Props.C15.SameWorld env base st st) (htop : st.top = top)
    (hdone : (eval env impl (d.cfg none) fuel i s none st).stop = .done) :
    (isValid (eval env impl (d.cfg none) fuel i s) st).1 = .ok (Spec.validRN env d base fuel top s i) := by
  have h := ref_verdict_agrees env hre hset hf impl d base D hD top s i hs hwi fuel st hst htop
    hdone fuel (Nat.le_refl _)
  rw [(prefixLaw_eval env impl (d.cfg none) fuel i s).isValid_spec st, hdone]
  cases he : (eval env impl (d.cfg none) fuel i s none st).errs with
  | nil => rw [h.1 he]
  | cons e es =>
    have : Spec.validRN env d base fuel top s i = false := by
      rw [Bool.eq_false_iff]
      intro hv
      rw [h.2 hv] at he
      cases he
    rw [this]

/-- on reference-free schemas the specification with references is C01's, whatever the base -/
theorem validRN_reffree (env : Env) (d : Draft) (base : List (Str × Json)) (top : Str) (s i : Json)
    (hs : Spec.shaped d s = true) (n : Nat) :
    Spec.validRN env d base n top s i = Spec.validN env d n s i := by
  exact validRN_reffree_aux env d base n (s.size + 1) top s i hs

/-! ### Non-vacuity: a recursive schema

A world without retrieval; the draft 7 schema
`{"properties": {"next": {"$ref": "#"}, "v": {"type": "integer"}}}` (a linked list) is the document
stored under the URI `""`; the domain is the finite table of its three schema objects under the two
base URIs that arise (`""` at the root, `"#"` inside the reference). -/

namespace Recursive
open JS.Spec

/-- joining yields the reference itself (the base when the reference is empty), the fragment is
    what follows the first `#`, normalisation is the identity, every retrieval fails -/
def env : Env where
  reSearch := fun _ _ => some (some false)
  urljoin := fun a b => some (if b = [] then a else b)
  urldefrag := fun u => some (u.takeWhile (· != '#'), (u.dropWhile (· != '#')).drop 1)
  urinorm := fun u => some u
  scheme := fun _ => none
  sortPerm := fun _ => none
  setOrder := fun xs => some xs
  fetch := fun _ _ => some none
  fmt := fun _ _ => none

def impl : FmtImpl := ⟨fun _ _ => none⟩

theorem regexTotal : RegexTotal env := fun _ _ => ⟨false, rfl⟩
theorem urlTotal : UrlTotal env := ⟨fun _ _ => rfl, fun _ => rfl, fun _ => rfl⟩
theorem setOrderOk : SetOrderOk env := fun xs => ⟨xs, rfl, List.Perm.refl _⟩
theorem stable : C15.StableFetch env := ⟨fun _ _ _ => rfl, fun _ _ _ _ _ _ => rfl⟩

/-- a domain given by a finite table of (base URI, schema object) pairs -/
def tableD (tbl : List (Str × List (Str × Json))) (top : Str) (s : Json) : Bool :=
  match s with
  | .obj kvs => decide ((top, kvs) ∈ tbl)
  | _ => false

theorem tableD_all {tbl : List (Str × List (Str × Json))} {Q : Str → List (Str × Json) → Prop}
    (h : ∀ p ∈ tbl, Q p.1 p.2) : ∀ top kvs, tableD tbl top (.obj kvs) = true → Q top kvs :=
  fun top kvs hd => h (top, kvs) (of_decide_eq_true hd)

theorem tableD_obj {tbl : List (Str × List (Str × Json))} {top : Str} {s : Json}
    (h : tableD tbl top s = true) : ∃ kvs, s = .obj kvs := by
  cases s <;> first | exact ⟨_, rfl⟩ | cases h

theorem done_of_isDone {s : Stop} (h : s.isDone = true) : s = .done := by
  cases s <;> first | rfl | cases h

def refKvs : List (Str × Json) := [(k!"$ref", .str ['#'])]
def intKvs : List (Str × Json) := [(k!"type", .str (k!"integer"))]
def rootKvs : List (Str × Json) :=
  [(k!"properties", .obj [(k!"next", .obj refKvs), (k!"v", .obj intKvs)])]
def root : Json := .obj rootKvs
def base : List (Str × Json) := [([], root)]

def table : List (Str × List (Str × Json)) :=
  [([], rootKvs), ([], refKvs), ([], intKvs), (['#'], rootKvs), (['#'], refKvs), (['#'], intKvs)]

def D : Str → Json → Bool := tableD table

theorem refDomain : RefDomain env .d7 base D where
  kind := fun top s h => by
    obtain ⟨kvs, rfl⟩ := tableD_obj h
    exact Or.inl rfl
  side := fun top s h => by
    obtain ⟨kvs, rfl⟩ := tableD_obj h
    exact tableD_all (tbl := table)
      (Q := fun _ kvs => WF (.obj kvs) = true ∧ numSafe (.obj kvs) = true
        ∧ typesKnown .d7 (.obj kvs) = true) (by decide +kernel) top kvs h
  ident := fun top kvs h => by
    have := tableD_all (tbl := table)
      (Q := fun _ kvs => lookupJ "$id" kvs = none ∧ idOf .d7 kvs = none) (by decide +kernel) top kvs h
    refine ⟨?_, fun id hid => ?_⟩
    · show (match lookupJ "$id" kvs with | some v => isStrJ v | none => true) = true
      rw [this.1]
    · rw [this.2] at hid; cases hid
  shape := fun top kvs h => tableD_all (tbl := table)
    (Q := fun top kvs => lookupJ "$ref" kvs = none →
      kvs.all (shapeClause .d7 (D (baseInside env .d7 top kvs))) = true) (by decide +kernel) top kvs h
  ref := fun top kvs r h hr => by
    have := tableD_all (tbl := table)
      (Q := fun top kvs => lookupJ "$ref" kvs = none ∨
        (lookupJ "$ref" kvs = some (.str ['#']) ∧ designated env base top ['#'] = some (['#'], root)
          ∧ env.urljoin top ['#'] = some ['#'] ∧ D ['#'] root = true)) (by decide +kernel) top kvs h
    rcases this with h0 | ⟨h1, h2, h3, h4⟩
    · rw [h0] at hr; cases hr
    · rw [h1] at hr
      cases hr
      exact ⟨_, _, _, rfl, h2, h3, h4⟩
  req3 := fun h => nomatch h

/-- a fresh resolver whose store is the caller's -/
def st0 : RState := ⟨[], base, [], none, true, 0, []⟩

/-- `{"next": {"next": {"v": 1}}, "v": 2}` -/
def inst : Json :=
  .obj [(k!"next", .obj [(k!"next", .obj [(k!"v", .num (.int 1))])]), (k!"v", .num (.int 2))]

/-- `{"next": {"next": {"v": "one"}}, "v": 2}` -/
def instBad : Json :=
  .obj [(k!"next", .obj [(k!"next", .obj [(k!"v", .str (k!"one"))])]), (k!"v", .num (.int 2))]

/-- `ref_verdict_agrees` applies (every hypothesis is discharged by computation) … -/
example :
    (eval env impl (Draft.d7.cfg none) 10 inst root none st0).errs = []
      ↔ validRN env .d7 base 10 [] root inst = true :=
  ref_verdict_agrees env regexTotal setOrderOk stable impl .d7 base D refDomain [] root inst
    (by decide +kernel) (by decide +kernel) 10 st0 (C15.sameWorld_fresh env st0 rfl) rfl
    (done_of_isDone (by decide +kernel)) 10 (Nat.le_refl _)

/-- … and says something: the list `inst` is valid, three references deep, … -/
example : validRN env .d7 base 10 [] root inst = true
    ∧ (eval env impl (Draft.d7.cfg none) 10 inst root none st0).errs.isEmpty = true := by
  decide +kernel

/-- … the list `instBad` is not (the error sits behind two references) -/
example :
    ((eval env impl (Draft.d7.cfg none) 10 instBad root none st0).errs = []
      ↔ validRN env .d7 base 10 [] root instBad = true)
    ∧ validRN env .d7 base 10 [] root instBad = false :=
  ⟨ref_verdict_agrees env regexTotal setOrderOk stable impl .d7 base D refDomain [] root
    instBad (by decide +kernel) (by decide +kernel) 10 st0 (C15.sameWorld_fresh env st0 rfl) rfl
    (done_of_isDone (by decide +kernel)) 10 (Nat.le_refl _), by decide +kernel⟩

end Recursive

/-! ### Why `Spec.RefDomain` has the field `req3`

The domain as first given (`Spec.RefDomain_statement`) says nothing about the keys next to a
`$ref`. In draft 3 one of them matters all the same: `required` is read by the ENCLOSING
`properties` keyword, and the implementation takes any truthy value for `true`
(`subschema.get("required", False)`), while the specification reads `true` only. With
`{"properties": {"a": {"$ref": "#", "required": "yes"}}}` and the instance `{}` the implementation
reports a missing property and the specification does not. -/

/-- `ref_verdict_agrees` over the domain as first given -/
def ref_verdict_agrees_statement : Prop :=
  ∀ (env : Env) (_ : Spec.RegexTotal env)
    (_ : Spec.SetOrderOk env) (_ : Props.C15.StableFetch env)
    (impl : FmtImpl) (d : Draft) (base : List (Str × Json)) (D : Str → Json → Bool)
    (_ : Spec.RefDomain_statement env d base D)
    (top : Str) (s i : Json) (_ : D top s = true) (_ : Spec.WF i = true)
    (fuel : Nat) (st : RState) (_ : Props.C15.SameWorld env base st st) (_ : st.top = top)
    (_ : (eval env impl (d.cfg none) fuel i s none st).stop = .done),
    ∀ m, fuel ≤ m →
      ((eval env impl (d.cfg none) fuel i s none st).errs = [] ↔ Spec.validRN env d base m top s i = true)

namespace Required3
open JS.Spec Recursive

def aKvs : List (Str × Json) := [(k!"$ref", .str ['#']), (k!"required", .str (k!"yes"))]
def rootKvs : List (Str × Json) := [(k!"properties", .obj [(k!"a", .obj aKvs)])]
def root : Json := .obj rootKvs
def base : List (Str × Json) := [([], root)]
def table : List (Str × List (Str × Json)) :=
  [([], rootKvs), ([], aKvs), (['#'], rootKvs), (['#'], aKvs)]
def D : Str → Json → Bool := tableD table
def st0 : RState := ⟨[], base, [], none, true, 0, []⟩

theorem refDomain_statement : RefDomain_statement env .d3 base D where
  kind := fun top s h => by
    obtain ⟨kvs, rfl⟩ := tableD_obj h
    exact Or.inl rfl
  side := fun top s h => by
    obtain ⟨kvs, rfl⟩ := tableD_obj h
    exact tableD_all (tbl := table)
      (Q := fun _ kvs => WF (.obj kvs) = true ∧ numSafe (.obj kvs) = true
        ∧ typesKnown .d3 (.obj kvs) = true) (by decide +kernel) top kvs h
  ident := fun top kvs h => by
    have := tableD_all (tbl := table)
      (Q := fun _ kvs => lookupJ "id" kvs = none ∧ idOf .d3 kvs = none) (by decide +kernel) top kvs h
    refine ⟨?_, fun id hid => ?_⟩
    · show (match lookupJ "id" kvs with | some v => isStrJ v | none => true) = true
      rw [this.1]
    · rw [this.2] at hid; cases hid
  shape := fun top kvs h => tableD_all (tbl := table)
    (Q := fun top kvs => lookupJ "$ref" kvs = none →
      kvs.all (shapeClause .d3 (D (baseInside env .d3 top kvs))) = true) (by decide +kernel) top kvs h
  ref := fun top kvs r h hr => by
    have := tableD_all (tbl := table)
      (Q := fun top kvs => lookupJ "$ref" kvs = none ∨
        (lookupJ "$ref" kvs = some (.str ['#']) ∧ designated env base top ['#'] = some (['#'], root)
          ∧ env.urljoin top ['#'] = some ['#'] ∧ D ['#'] root = true)) (by decide +kernel) top kvs h
    rcases this with h0 | ⟨h1, h2, h3, h4⟩
    · rw [h0] at hr; cases hr
    · rw [h1] at hr
      cases hr
      exact ⟨_, _, _, rfl, h2, h3, h4⟩

/-- the run ends normally with one error; the specification (any number of steps) says valid -/
theorem disagree :
    (eval env impl (Draft.d3.cfg none) 3 (.obj []) root none st0).stop.isDone = true
    ∧ (eval env impl (Draft.d3.cfg none) 3 (.obj []) root none st0).errs.isEmpty = false
    ∧ validRN env .d3 base 3 [] root (.obj []) = true := by
  decide +kernel

end Required3

/-- **the statement over the domain as first given is false** (draft 3, `required` next to `$ref`) -/
theorem ref_verdict_agrees_counterexample : ¬ ref_verdict_agrees_statement := by
  intro h
  have h' := h Recursive.env Recursive.regexTotal Recursive.setOrderOk
    Recursive.stable Recursive.impl .d3 Required3.base Required3.D Required3.refDomain_statement
    [] Required3.root (.obj []) (by decide +kernel) (by decide +kernel) 3 Required3.st0
    (C15.sameWorld_fresh Recursive.env Required3.st0 rfl) rfl
    (Recursive.done_of_isDone Required3.disagree.1) 3 (Nat.le_refl _)
  have he := h'.2 Required3.disagree.2.2
  have := Required3.disagree.2.1
  rw [he] at this
  cases this

end JS.Props.C02
