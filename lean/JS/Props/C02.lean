/-
  C02 — `$ref` is transparent: a reference behaves as the schema it designates.
  Property theorems only; helper lemmas live in JS/Proofs/Ref.lean.

  What is proved: (1) evaluating a reference object IS evaluating the designated schema, in the
  designated schema's scope, with identical error records (no schema-path element is added,
  nothing is overwritten) and sibling keywords ignored; (2) the designated schema is found by
  RFC 3986 resolution of the reference against the base URI in effect (the `urljoin` oracle applied
  to the top of the scope stack), then the store lookup under the normalised, defragmented URI,
  then RFC 6901 evaluation of the fragment (C14's `resolve_eq_spec`); (3) the base URI in effect
  while a subschema is evaluated is the join of the ids on the evaluation path, and is restored
  afterwards (stack discipline). The global statement "same verdict and error locations as the
  schema with every reference written out" (for every placement, chain and recursion) is decided by
  the correspondence and by the inlining monitor, not by a theorem (DESIGN §6 C02).
-/
import JS.Proofs.Ref
namespace JS.Props.C02
open JS

/-- **A reference object is its target.** For the four drafts: with a (string) `$ref` present —
    whatever else is written next to it, an id included: nothing is pushed for the object itself — the
    result of evaluating the schema object is exactly: resolve the reference (an exception there
    ends the run before anything is pushed), evaluate the designated schema with the resolved URL
    as scope, pop. The errors are the target's errors with nothing added to their paths. -/
theorem ref_is_target (env : Env) (impl : FmtImpl) (d : Draft) (fc : Option FormatChecker) (rec : Rec)
    (kvs : List (Str × Json)) (r : Str) (inst : Json) (b : Option Nat) (st : RState)
    (href : Json.lookup (skey "$ref") kvs = some (.str r)) :
    evalStep env impl (d.cfg fc) rec inst (.obj kvs) b st =
      (match resolve env r st with
       | (.ok (url, target), st1) =>
           mapErrs (stamp (skey "$ref") (.str r) inst (.obj kvs)) (withScope env url (rec inst target)) b st1
       | (.raise e, st1) => ⟨[], .raised e, st1⟩
       | (.miss q, st1) => ⟨[], .miss q, st1⟩) := by
  have hr : Json.hasKey (skey "$ref") kvs = true := by unfold Json.hasKey; rw [href]; rfl
  rw [evalStep_obj_noId env impl (d.cfg fc) rec kvs inst (.inr hr),
    schemaBody_ref env impl d fc rec kvs r inst href]
  dsimp only [mapErrs, kwRef]
  rcases resolve env r st with ⟨⟨url, target⟩ | e | q, st1⟩ <;> rfl

/-- errors coming out of a reference keep their own records: `stamp` for `$ref` changes nothing in
    an error whose fields are already set (as every error of the evaluator is, C06 `info_set`) -/
theorem ref_errors_unchanged (r inst schema : Json) (e : Err) (h : e.info.isSome = true) :
    stamp (skey "$ref") r inst schema e = e := by
  exact stamp_ref_of_info r inst schema e h

/-- **The designated schema** (RFC 3986, then RFC 6901). If joining the reference with the base
    URI in effect gives `url`, whose defragmented, normalised form `k` names the document `doc` in
    the store, then — memo hit or miss, whatever the memo holds provided it is sound for this URL —
    the reference resolves to `url` and to the value the fragment's pointer addresses in `doc`,
    or fails with `RefResolutionError` when it addresses nothing; no retrieval happens. -/
theorem designated_schema (env : Env) (keep : Char → Bool) (ref url u k : Str) (toks : List Str)
    (doc : Json) (st : RState)
    (hj : env.urljoin st.top ref = some url)
    (hd : env.urldefrag url = some (u, Spec.fragmentOf keep toks))
    (hn : env.urinorm u = some k) (hs : Json.lookup k st.store = some doc)
    (hmemo : Json.lookup url st.memo = none) :
    (resolve env ref st).1 =
      (match Spec.ptrEval doc toks with
       | some target => .ok (url, target)
       | none => .raise .refResolution)
    ∧ (resolve env ref st).2.fetchLog = st.fetchLog
    ∧ (resolve env ref st).2.store = st.store
    ∧ (resolve env ref st).2.scopes = st.scopes := by
  have hr : resolveFromUrl env url st = (fragRes doc (Spec.fragmentOf keep toks), st) := by
    simp only [resolveFromUrl, hd, hn, hs]
  unfold resolve
  simp only [hj, memoLookup_of_none hmemo, hr, fragRes, PointerProofs.resolve_eq_spec]
  cases Spec.ptrEval doc toks <;> exact ⟨rfl, rfl, rfl, rfl⟩

/-- the memo is transparent for documents in the store: a hit returns what a miss would compute,
    provided the memo only holds what `resolve` put there (`MemoSound`) -/
def MemoSound (env : Env) (st : RState) : Prop :=
  ∀ url v, Json.lookup url st.memo = some v →
    ∃ u frag k doc, env.urldefrag url = some (u, frag) ∧ env.urinorm u = some k
      ∧ Json.lookup k st.store = some doc ∧ resolveFragment doc frag = some v

theorem memo_hit_is_recomputation (env : Env) (ref url : Str) (v : Json) (st : RState)
    (hs : MemoSound env st) (hj : env.urljoin st.top ref = some url)
    (hm : Json.lookup url st.memo = some v) :
    (resolve env ref st).1 = .ok (url, v)
    ∧ ∃ u frag k doc, env.urldefrag url = some (u, frag) ∧ env.urinorm u = some k
        ∧ Json.lookup k st.store = some doc ∧ resolveFragment doc frag = some v := by
  refine ⟨?_, hs url v hm⟩
  unfold resolve
  simp only [hj, memoLookup_of_some hm]

/-! #### `MemoSound` is an invariant (with `cache_remote` on); `MemoBacked` always

`resolve` memoises exactly the value it computed from a store document or from a document it just
fetched.  The fetched document is written to the store only when `cacheRemote = true`, so
`MemoSound` ("backed by the store") is an invariant exactly under that switch — with it off it is
*not* (`memoSound_not_invariant_when_off`) — while the weaker `MemoBacked` ("backed by the store
or by a document this resolver fetched for that URI at an earlier attempt") is an invariant
unconditionally.  No hypothesis on the store is needed: `resolve` only ever writes a key that was
absent (C15 `store_grows_only`). -/

/-- a fresh resolver's (empty) memo is sound -/
theorem memoSound_fresh (env : Env) (st : RState) (h : st.memo = []) : MemoSound env st :=
  memoSoundS_nil env st h

/-- one `resolve` keeps the memo sound when remote documents are cached (and keeps the switch) -/
theorem memoSound_resolve (env : Env) (ref : Str) (st : RState)
    (hc : st.cacheRemote = true) (hs : MemoSound env st) :
    MemoSound env (resolve env ref st).2 ∧ (resolve env ref st).2.cacheRemote = true :=
  ((memoSoundInv env).resolve ref st ⟨hc, hs⟩).symm

/-- … and so does every evaluation, whatever fuel, budget and way of stopping … -/
theorem memoSound_eval (env : Env) (impl : FmtImpl) (cfg : Cfg) (fuel : Nat) (inst schema : Json)
    (b : Option Nat) (st : RState) (hc : st.cacheRemote = true) (hs : MemoSound env st) :
    MemoSound env (eval env impl cfg fuel inst schema b st).st
    ∧ (eval env impl cfg fuel inst schema b st).st.cacheRemote = true :=
  (keeps_eval (memoSoundInv env) impl cfg fuel inst schema b st ⟨hc, hs⟩).symm

/-- … and every history of operations on one validator, e.g. starting from a fresh resolver. -/
theorem memoSound_hist (env : Env) (impl : FmtImpl) (cfg : Cfg) (fuel : Nat) (schema : Json)
    (st : RState) (ops : List Op) (hc : st.cacheRemote = true) (hs : MemoSound env st) :
    MemoSound env (runHist env impl cfg fuel schema st ops).2 :=
  (keeps_runHist (memoSoundInv env) impl cfg fuel schema ops st ⟨hc, hs⟩).2

/-- with `cache_remote` off `MemoSound` is not preserved: a fetched document is memoised (through
    the value its fragment addresses) but never reaches the store -/
theorem memoSound_not_invariant_when_off :
    ∃ (env : Env) (ref : Str) (st : RState),
      st.cacheRemote = false ∧ MemoSound env st ∧ ¬ MemoSound env (resolve env ref st).2 :=
  ⟨MemoCex.env, [], MemoCex.st, rfl, MemoCex.sound_before, MemoCex.unsound_after⟩

/-- the unconditional invariant: every memo entry is what `resolve_from_url` computed from a
    document that is in the store now, or that this resolver retrieved for the entry's
    defragmented URI at an earlier attempt `n < clock` -/
def MemoBacked (env : Env) (st : RState) : Prop :=
  ∀ url v, Json.lookup url st.memo = some v →
    ∃ u frag k doc, env.urldefrag url = some (u, frag) ∧ env.urinorm u = some k
      ∧ (Json.lookup k st.store = some doc ∨ ∃ n, n < st.clock ∧ env.fetch n u = some (some doc))
      ∧ resolveFragment doc frag = some v

theorem memoSound_backed (env : Env) (st : RState) (h : MemoSound env st) : MemoBacked env st :=
  memoBackedS_of_sound h

theorem memoBacked_resolve (env : Env) (ref : Str) (st : RState) (hs : MemoBacked env st) :
    MemoBacked env (resolve env ref st).2 :=
  (memoBackedInv env).resolve ref st hs

theorem memoBacked_eval (env : Env) (impl : FmtImpl) (cfg : Cfg) (fuel : Nat) (inst schema : Json)
    (b : Option Nat) (st : RState) (hs : MemoBacked env st) :
    MemoBacked env (eval env impl cfg fuel inst schema b st).st :=
  keeps_eval (memoBackedInv env) impl cfg fuel inst schema b st hs

theorem memoBacked_hist (env : Env) (impl : FmtImpl) (cfg : Cfg) (fuel : Nat) (schema : Json)
    (st : RState) (ops : List Op) (hs : MemoBacked env st) :
    MemoBacked env (runHist env impl cfg fuel schema st ops).2 :=
  keeps_runHist (memoBackedInv env) impl cfg fuel schema ops st hs

/-- **The base URI in effect.** Evaluating a schema object with an id (and no `$ref` key) pushes `urljoin(top, id)`
    for exactly the duration of that object's evaluation: every keyword of the object (and, through
    them, every subschema) runs with that scope on top of the unchanged stack, and afterwards the
    stack is what it was. -/
theorem id_scopes_subschemas (env : Env) (impl : FmtImpl) (cfg : Cfg) (rec : Rec)
    (kvs : List (Str × Json)) (ident u : Str) (inst : Json) (b : Option Nat) (st : RState)
    (hid : Json.lookup cfg.idKey kvs = some (.str ident)) (hne : ident ≠ [])
    (hnr : Json.hasKey (skey "$ref") kvs = false)
    (hj : env.urljoin st.top ident = some u) :
    evalStep env impl cfg rec inst (.obj kvs) b st =
      (match schemaBody env impl cfg rec inst kvs b { st with scopes := u :: st.scopes } with
       | ⟨es, s, st'⟩ => ⟨es, s, { st' with scopes := st'.scopes.tail }⟩) := by
  rw [evalStep_obj_id env impl cfg rec kvs ident inst hid hne hnr]
  unfold withScope
  simp only [hj]

/-- a schema object without id — or with a `$ref` key — evaluates its keywords in the enclosing scope -/
theorem no_id_same_scope (env : Env) (impl : FmtImpl) (cfg : Cfg) (rec : Rec)
    (kvs : List (Str × Json)) (inst : Json) (b : Option Nat) (st : RState)
    (hid : Json.lookup cfg.idKey kvs = none ∨ Json.hasKey (skey "$ref") kvs = true) :
    evalStep env impl cfg rec inst (.obj kvs) b st = schemaBody env impl cfg rec inst kvs b st := by
  rw [evalStep_obj_noId env impl cfg rec kvs inst hid]

end JS.Props.C02
