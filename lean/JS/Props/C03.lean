/-
  C03 — validation is total: accepted schema + JSON instance never crashes or hangs.
  Property theorems only; helper lemmas live in JS/Proofs/Framework2.lean (binary closure
  framework) and JS/Proofs/NoCrash.lean.

  `Spec.shapedR d s` (JS.Spec.Valid) is the shape the draft's metaschema prescribes, references
  allowed. That `check_schema` accepts only shaped schemas is decided by the CHK/SPEC
  correspondence on every run (and is C11's subject); here the evaluator is shown never to crash
  on shaped schemas. A reference whose target is not a schema is outside the domain ("the drafts
  require the target to be a schema"); this is made precise with a GUARDED evaluator that checks the
  shape of every schema it is about to evaluate: the real evaluator agrees with the guarded one
  unless the guard fires, and the guard can only fire at the target of a reference.
-/
import JS.Proofs.NoCrash
namespace JS.Props.C03
open JS

/-- the marker the guarded evaluator raises when it is about to evaluate a non-schema -/
def unshapedTarget : Exc := .crash "UNSHAPED-REFERENCE-TARGET"

/-- check the shape before every recursive evaluation -/
def guardRec (d : Draft) (rec : Rec) : Rec :=
  fun i s => if Spec.shapedR d s then rec i s else raiseG unshapedTarget

/-- the guarded evaluator -/
def evalG (env : Env) (impl : FmtImpl) (d : Draft) (fc : Option FormatChecker) : Nat → Rec
  | 0 => fun _ _ => stopG .fuel
  | n + 1 => evalStep env impl (d.cfg fc) (guardRec d (evalG env impl d fc n))

/-- the ways a validation may end: normally, closed early, out of fuel (recursion limit), the
    documented exceptions (`RefResolutionError`; `UnknownType` in Draft 3 only), an exception of a
    user-supplied format function (only with a format checker), an oracle miss (driver artefact) -/
def Benign (d : Draft) (fcOn : Bool) : Stop → Prop
  | .done => True
  | .budget => True
  | .fuel => True
  | .miss _ => True
  | .raised .refResolution => True
  | .raised (.unknownType _) => d = .d3
  | .raised (.custom _) => fcOn = true
  | .raised (.crash _) => False

/-- every regular expression compiles -/
def RegexOk (env : Env) : Prop := ∀ p s, env.reSearch p s ≠ some none

/-- **No crash on shaped schemas (guarded evaluator).** Whatever the instance, fuel, budget and
    resolver state: the guarded evaluator ends benignly or with the guard's own marker. -/
theorem guarded_no_crash (env : Env) (hre : RegexOk env) (impl : FmtImpl) (d : Draft)
    (fc : Option FormatChecker) (n : Nat) (i s : Json) (hs : Spec.shapedR d s = true)
    (b : Option Nat) (st : RState) :
    Benign d fc.isSome (evalG env impl d fc n i s b st).stop
    ∨ (evalG env impl d fc n i s b st).stop = .raised unshapedTarget := by
  sorry

/-- **The guard is faithful.** Unless the guard fires, the guarded evaluator *is* the evaluator. -/
theorem guard_simulation (env : Env) (impl : FmtImpl) (d : Draft) (fc : Option FormatChecker)
    (n : Nat) (i s : Json) (b : Option Nat) (st : RState) :
    (evalG env impl d fc n i s b st).stop = .raised unshapedTarget
    ∨ evalG env impl d fc n i s b st = eval env impl (d.cfg fc) n i s b st := by
  sorry

/-- **C03.** On a shaped schema the evaluator ends benignly, unless some reference met on the way
    designates something that is not a schema. -/
theorem no_crash (env : Env) (hre : RegexOk env) (impl : FmtImpl) (d : Draft)
    (fc : Option FormatChecker) (n : Nat) (i s : Json) (hs : Spec.shapedR d s = true)
    (b : Option Nat) (st : RState) :
    Benign d fc.isSome (eval env impl (d.cfg fc) n i s b st).stop
    ∨ (evalG env impl d fc n i s b st).stop = .raised unshapedTarget := by
  sorry

/-- reference-free shaped schemas: the guard never fires, so the evaluator always ends benignly -/
theorem no_crash_reffree (env : Env) (hre : RegexOk env) (impl : FmtImpl) (d : Draft)
    (fc : Option FormatChecker) (n : Nat) (i s : Json) (hs : Spec.shaped d s = true)
    (b : Option Nat) (st : RState) :
    Benign d fc.isSome (eval env impl (d.cfg fc) n i s b st).stop := by
  sorry

/-- termination: a reference-free schema never runs out of fuel once the fuel exceeds twice its size -/
theorem terminates_reffree (env : Env) (impl : FmtImpl) (d : Draft) (fc : Option FormatChecker)
    (n : Nat) (i s : Json) (hs : Spec.shaped d s = true) (hn : 2 * s.size + 2 ≤ n)
    (b : Option Nat) (st : RState) :
    (eval env impl (d.cfg fc) n i s b st).stop ≠ .fuel := by
  sorry

/-- hence every entry point (`is_valid`, `validate`, `iter_errors`) ends benignly -/
theorem entry_points_benign (env : Env) (hre : RegexOk env) (impl : FmtImpl) (d : Draft)
    (fc : Option FormatChecker) (n : Nat) (i s : Json) (hs : Spec.shaped d s = true) (st : RState) :
    (match (isValid (eval env impl (d.cfg fc) n i s) st).1 with
     | .raise e => Benign d fc.isSome (.raised e) | _ => True)
    ∧ (match (validateM (eval env impl (d.cfg fc) n i s) st).1 with
       | .raise e => Benign d fc.isSome (.raised e) | _ => True) := by
  sorry

end JS.Props.C03
