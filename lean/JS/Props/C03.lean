/-
  C03 — validation is total: accepted schema + JSON instance never crashes or hangs.
  Property theorems only; helper lemmas live in JS/Proofs/Framework2.lean (binary closure
  framework) and JS/Proofs/NoCrash.lean.

  `Spec.shapedR d s` (JS.Spec.Valid) is the shape the draft's metaschema prescribes, references
  allowed. That `check_schema` accepts only shaped schemas is decided by the CHK/SPEC
  correspondence on every run (and is C11's subject); here the evaluator is shown never to crash
  on shaped schemas. A reference whose target is not a schema is outside the domain ("the drafts
  require the target to be a schema"); this is made precise with a GUARDED evaluator that checks the
  shape of every schema it is about to evaluate: the real evaluator agrees with the guarded one
  unless the guard fires, and the guard can only fire at the target of a reference.
-/
import JS.Proofs.NoCrash
import JS.Proofs.Terminate
namespace JS.Props.C03
open JS

/-- the marker the guarded evaluator raises when it is about to evaluate a non-schema -/
def unshapedTarget : Exc := .crash "UNSHAPED-REFERENCE-TARGET"

/-- check the shape before every recursive evaluation -/
def guardRec (d : Draft) (rec : Rec) : Rec :=
  fun i s => if Spec.shapedR d s then rec i s else raiseG unshapedTarget

/-- the guarded evaluator -/
def evalG (env : Env) (impl : FmtImpl) (d : Draft) (fc : Option FormatChecker) : Nat → Rec
  | 0 => fun _ _ => stopG .fuel
  | n + 1 => evalStep env impl (d.cfg fc) (guardRec d (evalG env impl d fc n))

/-- the ways a validation may end: normally, closed early, out of fuel (recursion limit), the
    documented exceptions (`RefResolutionError`; `UnknownType` in Draft 3 only), an exception of a
    user-supplied format function (only with a format checker), an oracle miss (driver artefact) -/
def Benign (d : Draft) (fcOn : Bool) : Stop → Prop
  | .done => True
  | .budget => True
  | .fuel => True
  | .miss _ => True
  | .raised .refResolution => True
  | .raised (.unknownType _) => d = .d3
  | .raised (.custom _) => fcOn = true
  | .raised (.crash _) => False

/-- every regular expression compiles -/
def RegexOk (env : Env) : Prop := ∀ p s, env.reSearch p s ≠ some none

/- The oracle assumptions of the theorems below: `RegexOk` and `Spec.SetOrderOk` (iterating a set
   yields a permutation of it: `additionalProperties` looks every extra property it iterates over up
   in the instance, so an oracle answering with a key that is not in the set would make the model
   stop with `KeyError`; see `NoCrash.SetOrderCex`). -/

/-- the benign stops (and the guard's marker) contain every way a keyword function may legitimately end -/
theorem stops_guarded (env : Env) (hre : RegexOk env) (hso : Spec.SetOrderOk env) (d : Draft)
    (fcOn : Bool) :
    NoCrash.Stops env d fcOn (fun s => Benign d fcOn s ∨ s = .raised unshapedTarget) where
  done := .inl trivial
  budget := .inl trivial
  miss := fun _ => .inl trivial
  refRes := .inl trivial
  unknownType := fun h _ => .inl h
  custom := fun h _ => .inl h
  reErr := fun p s h => absurd h (hre p s)
  keyErr := .inl (NoCrash.SetOrderMem.of_ok hso)

theorem stops_benign (env : Env) (hre : RegexOk env) (hso : Spec.SetOrderOk env) (d : Draft)
    (fcOn : Bool) : NoCrash.Stops env d fcOn (Benign d fcOn) where
  done := trivial
  budget := trivial
  miss := fun _ => trivial
  refRes := trivial
  unknownType := fun h _ => h
  custom := fun h _ => h
  reErr := fun p s h => absurd h (hre p s)
  keyErr := .inl (NoCrash.SetOrderMem.of_ok hso)

/-- **No crash on shaped schemas (guarded evaluator).** Whatever the instance, fuel, budget and
    resolver state: the guarded evaluator ends benignly or with the guard's own marker. -/
theorem guarded_no_crash (env : Env) (hre : RegexOk env) (hso : Spec.SetOrderOk env) (impl : FmtImpl) (d : Draft)
    (fc : Option FormatChecker) (n : Nat) (i s : Json) (hs : Spec.shapedR d s = true)
    (b : Option Nat) (st : RState) :
    Benign d fc.isSome (evalG env impl d fc n i s b st).stop
    ∨ (evalG env impl d fc n i s b st).stop = .raised unshapedTarget := by
  have hA := stops_guarded env hre hso d fc.isSome
  induction n generalizing i s b st with
  | zero => exact .inl trivial
  | succ n ih =>
    have hrec : ∀ i t, NoCrash.SI (fun s => Benign d fc.isSome s ∨ s = .raised unshapedTarget)
        (guardRec d (evalG env impl d fc n) i t) := by
      intro i t b st
      unfold guardRec
      split
      · exact ih i t ‹_› b st
      · exact .inr rfl
    exact NoCrash.evalStep_good hA impl true s.size _ i s hs (fun _ _ i t _ => hrec i t)
      (fun _ => hrec) b st

/-- **The guard is faithful.** Unless the guard fires, the guarded evaluator *is* the evaluator. -/
theorem guard_simulation (env : Env) (impl : FmtImpl) (d : Draft) (fc : Option FormatChecker)
    (n : Nat) (i s : Json) (b : Option Nat) (st : RState) :
    (evalG env impl d fc n i s b st).stop = .raised unshapedTarget
    ∨ evalG env impl d fc n i s b st = eval env impl (d.cfg fc) n i s b st := by
  have H := NoCrash.closed₂_RU env unshapedTarget
  induction n generalizing i s b st with
  | zero => exact .inr rfl
  | succ n ih =>
    have hrec : ∀ i s, NoCrash.RU unshapedTarget (guardRec d (evalG env impl d fc n) i s)
        (eval env impl (d.cfg fc) n i s) := by
      intro i s b st
      unfold guardRec
      split
      · exact ih i s b st
      · exact .inl rfl
    exact R_evalStep H impl (d.cfg fc) hrec i s b st

/-- **C03.** On a shaped schema the evaluator ends benignly, unless some reference met on the way
    designates something that is not a schema. -/
theorem no_crash (env : Env) (hre : RegexOk env) (hso : Spec.SetOrderOk env) (impl : FmtImpl) (d : Draft)
    (fc : Option FormatChecker) (n : Nat) (i s : Json) (hs : Spec.shapedR d s = true)
    (b : Option Nat) (st : RState) :
    Benign d fc.isSome (eval env impl (d.cfg fc) n i s b st).stop
    ∨ (evalG env impl d fc n i s b st).stop = .raised unshapedTarget := by
  rcases guard_simulation env impl d fc n i s b st with h | h
  · exact .inr h
  · rw [← h]
    exact guarded_no_crash env hre hso impl d fc n i s hs b st

/-- reference-free shaped schemas: the guard never fires, so the evaluator always ends benignly -/
theorem no_crash_reffree (env : Env) (hre : RegexOk env) (hso : Spec.SetOrderOk env) (impl : FmtImpl) (d : Draft)
    (fc : Option FormatChecker) (n : Nat) (i s : Json) (hs : Spec.shaped d s = true)
    (b : Option Nat) (st : RState) :
    Benign d fc.isSome (eval env impl (d.cfg fc) n i s b st).stop := by
  exact NoCrash.eval_good_reffree (stops_benign env hre hso d fc.isSome) trivial impl n i s ⟨_, hs⟩ b st

/-- termination: a reference-free schema never runs out of fuel once the fuel exceeds twice its size -/
theorem terminates_reffree (env : Env) (impl : FmtImpl) (d : Draft) (fc : Option FormatChecker)
    (n : Nat) (i s : Json) (hs : Spec.shaped d s = true) (hn : 2 * s.size + 2 ≤ n)
    (b : Option Nat) (st : RState) :
    (eval env impl (d.cfg fc) n i s b st).stop ≠ .fuel := by
  exact NoCrash.eval_terminates impl n s ⟨_, hs⟩ hn i b st

/-- hence every entry point (`is_valid`, `validate`, `iter_errors`) ends benignly -/
theorem entry_points_benign (env : Env) (hre : RegexOk env) (hso : Spec.SetOrderOk env) (impl : FmtImpl) (d : Draft)
    (fc : Option FormatChecker) (n : Nat) (i s : Json) (hs : Spec.shaped d s = true) (st : RState) :
    (match (isValid (eval env impl (d.cfg fc) n i s) st).1 with
     | .raise e => Benign d fc.isSome (.raised e) | _ => True)
    ∧ (match (validateM (eval env impl (d.cfg fc) n i s) st).1 with
       | .raise e => Benign d fc.isSome (.raised e) | _ => True) := by
  have h := no_crash_reffree env hre hso impl d fc n i s hs (some 1) st
  constructor
  · unfold isValid
    rcases hg : eval env impl (d.cfg fc) n i s (some 1) st with ⟨es, stop, st'⟩
    rw [hg] at h
    cases es <;> cases stop <;> first | exact h | trivial
  · unfold validateM
    rcases hg : eval env impl (d.cfg fc) n i s (some 1) st with ⟨es, stop, st'⟩
    rw [hg] at h
    cases es <;> cases stop <;> first | exact h | trivial


/-- **termination with references**: a rank certificate suffices. `D` is a world of (base URI in
    effect, schema object) pairs and `rank` a rank on it (`Terminate.Ranked`, JS.Proofs.Terminate):
    every schema the evaluator evaluates THE SAME instance against — the members of
    `allOf`/`anyOf`/`oneOf`, `not`, `if`/`then`/`else`, schema-valued `dependencies`, draft 3 `extends`
    and the schemas in a draft 3 `type`/`disallow`, and the schema a `$ref` designates
    (`Spec.designated`) — is a member of strictly smaller rank, and every schema it evaluates a
    strict part of the instance against (`properties`, `items`, `additionalProperties`, …) is a
    member again; `R` bounds the ranks. Then, from every resolver state that is faithful to the
    documents `base` (`Knowledge.Know`: C15's `SameWorld`, one side), the evaluation of ANY instance
    `i` against a member never runs out of fuel once the fuel is `(i.size + 1) * (R + 1)` — with or
    without a format checker, under every budget. No assumption on the shape of the schemas is needed
    (a crash is not a hang). The certificate is a Boolean computation for a finite world
    (`Terminate.rankOk`, JS.Proofs.TerminateMeta), evaluated by the kernel for the four bundled
    metaschemas, whose references are cyclic (C11 `metaschema_run_terminates`). -/
theorem terminates_ranked (env : Env) (hf : Knowledge.StableFetchS env) (impl : FmtImpl) (d : Draft)
    (fc : Option FormatChecker) (base : List (Str × Json)) (D : Str → Json → Bool)
    (rank : Str → Json → Nat) (hR : Terminate.Ranked env d base D rank) (R : Nat)
    (hRb : ∀ top s, D top s = true → rank top s ≤ R)
    (n : Nat) (i : Json) (top : Str) (s : Json) (hs : D top s = true)
    (hn : (i.size + 1) * (R + 1) ≤ n) (b : Option Nat) (st : RState)
    (hk : Knowledge.Know env base st) (htop : st.top = top) :
    (eval env impl (d.cfg fc) n i s b st).stop ≠ .fuel :=
  Terminate.eval_not_fuel hf hR R hRb impl fc i top s hs n hn b st hk htop

end JS.Props.C03
