/-
  C04 — all entry points agree: `is_valid`, `iter_errors`, `validate()` and the consumers that
  take `k` errors and close are three budgets of one evaluation, related by the budget-prefix law;
  `best_match` returns one of the errors or a context-free descendant.
  Property theorems only; helper lemmas live in JS/Proofs/Prefix.lean and JS/Proofs/BestMatch.lean.
-/
import JS.Proofs.Prefix
import JS.Proofs.BestMatch
namespace JS.Props.C04
open JS

variable (env : Env) (impl : FmtImpl) (cfg : Cfg) (fuel : Nat) (inst schema : Json)

/-- the evaluation whose three consumers are compared -/
abbrev run : Gen := eval env impl cfg fuel inst schema

/-- `is_valid` is true exactly when `iter_errors` yields nothing and ends normally; it is false
    as soon as there is a first error (even if an exception would follow it); it raises what
    `iter_errors` raises before yielding anything. -/
theorem isValid_spec (st : RState) :
    (isValid (run env impl cfg fuel inst schema) st).1 =
      match (run env impl cfg fuel inst schema none st).errs, (run env impl cfg fuel inst schema none st).stop with
      | [], .done => .ok true
      | [], .raised e => .raise e
      | [], s => .other s
      | _ :: _, _ => .ok false :=
  (lawful_eval env impl cfg fuel inst schema).prefixLaw.isValid_spec st

/-- `validate()` raises the first error `iter_errors` yields. -/
theorem validate_spec (st : RState) :
    (validateM (run env impl cfg fuel inst schema) st).1 =
      match (run env impl cfg fuel inst schema none st).errs, (run env impl cfg fuel inst schema none st).stop with
      | [], .done => .ok ()
      | [], .raised e => .raise e
      | [], s => .other s
      | e :: _, _ => .invalid e :=
  (lawful_eval env impl cfg fuel inst schema).prefixLaw.validate_spec st

/-- taking `k ≥ 1` errors and closing the iterator yields the first `k` errors of the full list -/
theorem take_prefix (st : RState) (k : Nat) (hk : 0 < k) :
    (run env impl cfg fuel inst schema (some k) st).errs
      = (run env impl cfg fuel inst schema none st).errs.take k :=
  (lawful_eval env impl cfg fuel inst schema).prefixLaw.take_prefix st k hk

/-- `is_valid` ⇔ `validate()` raises nothing ⇔ `iter_errors` yields nothing (when no exception) -/
theorem entry_points_agree (st : RState)
    (hdone : (run env impl cfg fuel inst schema none st).stop = .done) :
    ((isValid (run env impl cfg fuel inst schema) st).1 = .ok true
        ↔ (run env impl cfg fuel inst schema none st).errs = [])
    ∧ ((validateM (run env impl cfg fuel inst schema) st).1 = .ok ()
        ↔ (run env impl cfg fuel inst schema none st).errs = []) :=
  (lawful_eval env impl cfg fuel inst schema).prefixLaw.entry_points_agree st hdone

/-- the exhaustive run (`list(iter_errors(...))`) never stops "because the consumer stopped" -/
theorem exhaustive_never_budget (st : RState) : (run env impl cfg fuel inst schema none st).stop ≠ .budget :=
  (lawful_eval env impl cfg fuel inst schema).nobudget st

/-- `best_match` returns an error without context that is one of the given errors or a
    descendant of one of them in its context tree. -/
theorem bestMatch_mem (weak strong : List Str) (es : List Err) (b : Err)
    (h : bestMatch weak strong es = some b) :
    b.context = [] ∧ ∃ e ∈ es, b ∈ (Err.closure [] [] e).map (·.2.2) :=
  bestMatch_mem' weak strong es b h

theorem bestMatch_none_iff (weak strong : List Str) (es : List Err) :
    bestMatch weak strong es = none ↔ es = [] :=
  bestMatch_none_iff' weak strong es

/-- when no error has a context, `best_match` is the first error of maximal relevance -/
theorem bestMatch_flat (weak strong : List Str) (e : Err) (es : List Err)
    (h : ∀ x ∈ e :: es, x.context = []) :
    bestMatch weak strong (e :: es) = some (maxBy (relevance weak strong) e es) :=
  bestMatch_flat' weak strong e es h

end JS.Props.C04
