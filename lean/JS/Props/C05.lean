/-
  C05 — every violated keyword is reported, independently of its sibling keywords.
  Property theorems only; helper lemmas live in JS/Proofs/Union.lean (which may reuse the
  simulation relation and the sibling-frame lemmas of JS/Proofs/Inert.lean).

  Errors are attributed to a keyword by the first element of their schema path; errors coming
  through if/then/else carry `then`/`else` there and are attributed to `if`.
-/
import JS.Proofs.Union
import JS.Proofs.UnionRef
import JS.Props.C15
namespace JS.Props.C05
open JS

/-- what inserting or removing sibling keys necessarily changes in an error: the recorded
    enclosing schema (and nothing else) -/
def eraseSchema : Err → Err
  | .mk m info p sp ctx c => .mk m (info.map fun i => { i with schema := .null }) p sp ctx c

/-- the error is attributed to keyword `k` -/
def attributed (k : Str) (e : Err) : Bool :=
  match e.schemaPath.head? with
  | some (.key h) => h == k || (k == skey "if" && (h == skey "then" || h == skey "else"))
  | _ => false

/-- the schema in which keyword `k` stands alone together with the siblings keyword functions
    consult (`Spec.consulted`) and the id key -/
def alone (cfg : Cfg) (kvs : List (Str × Json)) (k : Str) : Json :=
  .obj (kvs.filter fun p => p.1 == k || Spec.consulted.contains p.1 || p.1 == cfg.idKey)

/-- **Nothing is hidden, duplicated or altered.** For a reference-free schema object (distinct
    keys) evaluated exhaustively, the errors are exactly the concatenation, over its keywords in
    order, of the errors attributed to that keyword when it stands alone with the siblings it
    consults — identical in message, paths, keyword, value, instance, context and cause (only the
    recorded enclosing schema necessarily differs). -/
theorem union_of_keywords (env : Env) (impl : FmtImpl) (d : Draft) (fc : Option FormatChecker)
    (fuel : Nat) (i : Json) (kvs : List (Str × Json))
    (hwf : Spec.WF (.obj kvs) = true) (hnr : Spec.noRef (.obj kvs) = true) (st : RState)
    (hdone : (eval env impl (d.cfg fc) (fuel + 1) i (.obj kvs) none st).stop = .done) :
    (eval env impl (d.cfg fc) (fuel + 1) i (.obj kvs) none st).errs.map eraseSchema
      = kvs.flatMap fun kv =>
          (((eval env impl (d.cfg fc) (fuel + 1) i (alone (d.cfg fc) kvs kv.1) none st).errs.filter
              (attributed kv.1)).map eraseSchema) :=
  union_step env impl (draft_kwFacts d fc) (fun i s hs => eval_stInd env impl d fc fuel i s hs)
    i kvs (by simp only [Spec.WF, Bool.and_eq_true] at hwf; exact hwf.1) hnr st hdone

/-- **… also with references below.** The schema object itself carries no `$ref` (a reference
    object IS its target: C02), but its subschemas may contain references of every kind (local,
    into store documents, retrieved, recursive). In the whole run the resolver's knowledge grows from
    keyword to keyword (store, memo); each keyword standing alone starts from the initial state.
    Knowledge is transparent (C15), so the union law still holds: from every state that lives in the
    world `base`, under stable retrieval. -/
theorem union_of_keywords_refs (env : Env) (hf : Props.C15.StableFetch env) (hans : Props.C15.FetchAnswered env)
    (impl : FmtImpl) (d : Draft) (fc : Option FormatChecker)
    (fuel : Nat) (i : Json) (kvs : List (Str × Json))
    (hwf : Spec.WF (.obj kvs) = true) (hnoref : Json.lookup (skey "$ref") kvs = none)
    (base : List (Str × Json)) (st : RState) (hst : Props.C15.SameWorld env base st st)
    (hdone : (eval env impl (d.cfg fc) (fuel + 1) i (.obj kvs) none st).stop = .done) :
    (eval env impl (d.cfg fc) (fuel + 1) i (.obj kvs) none st).errs.map eraseSchema
      = kvs.flatMap fun kv =>
          (((eval env impl (d.cfg fc) (fuel + 1) i (alone (d.cfg fc) kvs kv.1) none st).errs.filter
              (attributed kv.1)).map eraseSchema) :=
  union_step_ref env hf hans impl (draft_kwFacts d fc) (Knowledge.eval_RK hf impl (d.cfg fc) fuel)
    (scopeOK_eval env impl (d.cfg fc) fuel) i kvs
    (by simp only [Spec.WF, Bool.and_eq_true] at hwf; exact hwf.1) hnoref st
    (Props.C15.sameWorld_iff.1 hst).left hdone

/-- each keyword's contribution to the whole is its own run: the exhaustive errors of a schema
    object without `$ref` are the concatenation of the per-keyword runs, in keyword order (state
    threaded from one keyword to the next), as long as no keyword raises -/
theorem errors_are_concatenation (env : Env) (impl : FmtImpl) (cfg : Cfg) (rec : Rec) (i : Json)
    (kvs : List (Str × Json)) (st : RState) :
    schemaBody env impl cfg rec i kvs = (match Json.lookup (skey "$ref") kvs with
      | some .null => seqG (runKeyword env impl cfg rec i (.obj kvs)) kvs
      | some ref => runKeyword env impl cfg rec i (.obj kvs) (skey "$ref", ref)
      | none => seqG (runKeyword env impl cfg rec i (.obj kvs)) kvs)
    ∧ ∀ (f : (Str × Json) → Gen) (xs ys : List (Str × Json)),
        (seqG f xs none st).stop = .done →
        (seqG f (xs ++ ys) none st).errs
          = (seqG f xs none st).errs ++ (seqG f ys none (seqG f xs none st).st).errs :=
  ⟨rfl, fun f xs ys h => seqG_append_errs f ys xs st h⟩

/-- a reference-free evaluation neither depends on nor changes the resolver state beyond restoring
    the scope stack: the errors are the same from any two states with the same scope top -/
theorem reffree_state_independent (env : Env) (impl : FmtImpl) (d : Draft) (fc : Option FormatChecker)
    (fuel : Nat) (i s : Json) (hnr : Spec.noRef s = true) (b : Option Nat) (st st' : RState)
    (htop : st.scopes = st'.scopes) :
    (eval env impl (d.cfg fc) fuel i s b st).errs = (eval env impl (d.cfg fc) fuel i s b st').errs
    ∧ (eval env impl (d.cfg fc) fuel i s b st).stop = (eval env impl (d.cfg fc) fuel i s b st').stop
    ∧ (eval env impl (d.cfg fc) fuel i s b st).st = st :=
  eval_stInd env impl d fc fuel i s hnr b st st' htop

/-! ### one error per violation -/

/-- `required`: one error per missing property -/
theorem required_one_per_missing (cfg : Cfg) (hobj : lookupS (skey "object") cfg.types = some .isObject)
    (rs : List Str) (ikvs : List (Str × Json)) (st : RState) :
    (kwRequired cfg (.arr (rs.map Json.str)) (.obj ikvs) none st).errs.length
      = (rs.filter fun r => !Json.hasKey r ikvs).length := by
  rw [kwRequired_errs cfg hobj rs ikvs st, List.length_map]

/-- array-form `dependencies`: one error per missing dependency of each present property -/
theorem dependency_one_per_missing (ikvs : List (Str × Json)) (prop : Str) (ds : List Str) (st : RState) :
    (depArray ikvs prop (ds.map Json.str) none st).errs.length
      = (ds.filter fun r => !Json.hasKey r ikvs).length := by
  rw [depArray_errs ikvs prop ds st, List.length_map]

/-- `items` (single schema): the errors are the concatenation over ALL elements, in order, of each
    element's errors with its index prepended — a failing element never stops the loop -/
theorem items_all_elements (cfg : Cfg) (harr : lookupS (skey "array") cfg.types = some .isArray)
    (rec : Rec) (sub : Json) (hsub : sub.isArr = false) (xs : List Json) (st : RState)
    (hdone : ∀ x st, (rec x sub none st).stop = .done ∧ (rec x sub none st).st = st) :
    (kwItems cfg rec sub (.arr xs) none st).errs
      = (enumFrom 0 xs).flatMap fun t => (rec t.2 sub none st).errs.map (·.consPath (.idx t.1)) :=
  kwItems_errs cfg harr rec sub hsub xs st hdone

/-- `allOf`: the errors of every branch, in order -/
theorem allOf_all_branches (rec : Rec) (ss : List Json) (i : Json) (st : RState)
    (hdone : ∀ s st, (rec i s none st).stop = .done ∧ (rec i s none st).st = st) :
    (kwAllOf rec (.arr ss) i none st).errs
      = (enumFrom 0 ss).flatMap fun t => (rec i t.2 none st).errs.map (·.consSchemaPath (.idx t.1)) :=
  kwAllOf_errs rec ss i st hdone

end JS.Props.C05
