/-
  C06 — each error locates itself truthfully in the instance and in the schema.
  Property theorems only; helper lemmas live in JS/Proofs/Located.lean.
  Model: `eval` and every applicator's `descendG … path schemaPath`, `stamp` (JS.Eval, JS.Keywords).
  Specification: `Spec.instLocated`, `Spec.schemaLocated` (JS.Spec.Located) over `Spec.ptrGet`.
-/
import JS.Proofs.Located
namespace JS.Props.C06
open JS

/-- **Instance side, every schema (references included)** — the statement as originally given, for an
    arbitrary validator class `cfg`. It is FALSE (see `inst_located_counterexample`): `stamp` and
    `Spec.instLocated` recognise the `propertyNames` exception by the *key* in the schema path, while
    the behaviour is selected by the *function* the class binds to the key; a class binding the
    `propertyNames` function under another name reports errors whose instance is a property name
    with no `propertyNames` in the schema path. -/
def inst_located_statement : Prop :=
  ∀ (env : Env) (impl : FmtImpl) (cfg : Cfg) (fuel : Nat) (i s : Json)
    (_hwi : Spec.WF i = true) (b : Option Nat) (st : RState),
    ∀ e ∈ (eval env impl cfg fuel i s b st).errs, Spec.instLocated i e = true

/-- the class `{"names": propertyNames}`, schema `{"names": false}`, instance `{"a": null}`: the one
    error has instance `"a"`, path `[]`, schema path `["names"]` -/
theorem inst_located_counterexample : ¬ inst_located_statement := by
  intro h
  exact Located.CE.fails
    (h Located.CE.env Located.CE.impl Located.CE.cfg 2 Located.CE.inst Located.CE.schema
      Located.CE.wf none Located.CE.st)

/-- **Instance side, every schema (references included).** Every error reported while validating
    `i` — at top level or nested in a context, for every validator class in which the `propertyNames`
    function is bound only to the key `propertyNames` (`hpn`, the extra hypothesis), every fuel,
    budget and state — locates itself truthfully in `i` (with the two documented exceptions spelled
    out in `Spec.instLocated`). -/
theorem inst_located_partial (env : Env) (impl : FmtImpl) (cfg : Cfg)
    (hpn : ∀ k, lookupS k cfg.keywords = some KwFn.propertyNames → k = Spec.kPN)
    (fuel : Nat) (i s : Json)
    (hwi : Spec.WF i = true) (b : Option Nat) (st : RState) :
    ∀ e ∈ (eval env impl cfg fuel i s b st).errs, Spec.instLocated i e = true :=
  Located.inst_eval env impl hpn fuel i s hwi b st

/-- the extra hypothesis holds of the four draft classes (with or without a format checker): for
    them the original statement holds as given -/
theorem inst_located_drafts (env : Env) (impl : FmtImpl) (d : Draft) (fc : Option FormatChecker)
    (fuel : Nat) (i s : Json)
    (hwi : Spec.WF i = true) (b : Option Nat) (st : RState) :
    ∀ e ∈ (eval env impl (d.cfg fc) fuel i s b st).errs, Spec.instLocated i e = true :=
  inst_located_partial env impl (d.cfg fc) (Located.pnKey_draft d fc) fuel i s hwi b st

/-- **Schema side, reference-free schemas.** Every error locates itself truthfully in `s`:
    keyword last in the schema path, recorded subschema holds the recorded value, and following the
    absolute schema path from the root reaches that value; for errors in contexts the absolute
    path is the parent's followed by the relative one. -/
theorem schema_located_reffree (env : Env) (impl : FmtImpl) (d : Draft) (fc : Option FormatChecker)
    (fuel : Nat) (i s : Json)
    (hws : Spec.WF s = true) (hnr : Spec.noRef s = true) (b : Option Nat) (st : RState) :
    ∀ e ∈ (eval env impl (d.cfg fc) fuel i s b st).errs, Spec.schemaLocated s [] e = true :=
  Located.schema_eval env impl d fc fuel i s hws hnr b st

/-- absolute paths are the parent's absolute path followed by the relative path (what
    `absolute_path` / `absolute_schema_path` compute through the parent chain) -/
theorem closure_paths (pp psp : List PathElem) (e : Err) :
    ∀ t ∈ Err.closure pp psp e, ∃ rel relS, t.1 = pp ++ rel ∧ t.2.1 = psp ++ relS :=
  Located.closure_paths_aux pp psp e

theorem closure_head (pp psp : List PathElem) (e : Err) :
    (Err.closure pp psp e).head? = some (pp ++ e.path, psp ++ e.schemaPath, e) :=
  Located.closure_head_aux pp psp e

/-- every error carries keyword, value, instance and schema (nothing is left unset) -/
theorem info_set (env : Env) (impl : FmtImpl) (cfg : Cfg) (fuel : Nat) (i s : Json) (b : Option Nat) (st : RState) :
    ∀ e ∈ (eval env impl cfg fuel i s b st).errs, e.info.isSome = true :=
  Located.info_eval env impl cfg fuel i s b st

end JS.Props.C06

