/-
  C06 — each error locates itself truthfully in the instance and in the schema.
  Property theorems only; helper lemmas live in JS/Proofs/Located.lean.
  Model: `eval` and every applicator's `descendG … path schemaPath`, `stamp` (JS.Eval, JS.Keywords).
  Specification: `Spec.instLocated`, `Spec.schemaLocated` (JS.Spec.Located) over `Spec.ptrGet`;
  with references `Spec.schemaLocatedR` (JS.Spec.LocatedRef) over `Spec.navR`, helper lemmas in
  JS/Proofs/LocatedRef.lean.
-/
import JS.Proofs.Located
import JS.Proofs.LocatedRef
import JS.Props.C15
namespace JS.Props.C06
open JS

/-- **Instance side, every schema (references included)** — the statement as originally given, for an
    arbitrary validator class `cfg`. It is FALSE (see `inst_located_counterexample`): `stamp` and
    `Spec.instLocated` recognise the `propertyNames` exception by the *key* in the schema path, while
    the behaviour is selected by the *function* the class binds to the key; a class binding the
    `propertyNames` function under another name reports errors whose instance is a property name
    with no `propertyNames` in the schema path. -/
def inst_located_statement : Prop :=
  ∀ (env : Env) (impl : FmtImpl) (cfg : Cfg) (fuel : Nat) (i s : Json)
    (_hwi : Spec.WF i = true) (b : Option Nat) (st : RState),
    ∀ e ∈ (eval env impl cfg fuel i s b st).errs, Spec.instLocated i e = true

/-- the class `{"names": propertyNames}`, schema `{"names": false}`, instance `{"a": null}`: the one
    error has instance `"a"`, path `[]`, schema path `["names"]` -/
theorem inst_located_counterexample : ¬ inst_located_statement := by
  intro h
  exact Located.CE.fails
    (h Located.CE.env Located.CE.impl Located.CE.cfg 2 Located.CE.inst Located.CE.schema
      Located.CE.wf none Located.CE.st)

/-- **Instance side, every schema (references included).** Every error reported while validating
    `i` — at top level or nested in a context, for every validator class in which the `propertyNames`
    function is bound only to the key `propertyNames` (`hpn`, the extra hypothesis), every fuel,
    budget and state — locates itself truthfully in `i` (with the two documented exceptions spelled
    out in `Spec.instLocated`). -/
theorem inst_located_partial (env : Env) (impl : FmtImpl) (cfg : Cfg)
    (hpn : ∀ k, lookupS k cfg.keywords = some KwFn.propertyNames → k = Spec.kPN)
    (fuel : Nat) (i s : Json)
    (hwi : Spec.WF i = true) (b : Option Nat) (st : RState) :
    ∀ e ∈ (eval env impl cfg fuel i s b st).errs, Spec.instLocated i e = true :=
  Located.inst_eval env impl hpn fuel i s hwi b st

/-- the extra hypothesis holds of the four draft classes (with or without a format checker): for
    them the original statement holds as given -/
theorem inst_located_drafts (env : Env) (impl : FmtImpl) (d : Draft) (fc : Option FormatChecker)
    (fuel : Nat) (i s : Json)
    (hwi : Spec.WF i = true) (b : Option Nat) (st : RState) :
    ∀ e ∈ (eval env impl (d.cfg fc) fuel i s b st).errs, Spec.instLocated i e = true :=
  inst_located_partial env impl (d.cfg fc) (Located.pnKey_draft d fc) fuel i s hwi b st

/-- **Schema side, reference-free schemas.** Every error locates itself truthfully in `s`:
    keyword last in the schema path, recorded subschema holds the recorded value, and following the
    absolute schema path from the root reaches that value; for errors in contexts the absolute
    path is the parent's followed by the relative one. -/
theorem schema_located_reffree (env : Env) (impl : FmtImpl) (d : Draft) (fc : Option FormatChecker)
    (fuel : Nat) (i s : Json)
    (hws : Spec.WF s = true) (hnr : Spec.noRef s = true) (b : Option Nat) (st : RState) :
    ∀ e ∈ (eval env impl (d.cfg fc) fuel i s b st).errs, Spec.schemaLocated s [] e = true :=
  Located.schema_eval env impl d fc fuel i s hws hnr b st

/-- **Schema side, schemas with references.** From every resolver state that lives in a
    well-formed world, every error — at top level and throughout its context — locates itself
    truthfully in `s`: the keyword is the last element of its schema path, the recorded subschema
    holds the recorded value, and following the absolute schema path from the root, HOPPING through
    the reference objects on the way (`Spec.navR`: a reference contributes no path element, the walk
    continues in the designated schema), reaches that value; an error of a `false` schema ends at
    the `false`, possibly designated by a final reference. -/
def schema_located_refs_statement : Prop :=
  ∀ (env : Env) (_hf : Props.C15.StableFetch env) (impl : FmtImpl) (d : Draft)
    (fc : Option FormatChecker) (fuel : Nat) (i s : Json) (_hws : Spec.WF s = true)
    (base : List (Str × Json)) (_hw : Spec.WorldOK env base)
    (b : Option Nat) (st : RState) (_hst : Props.C15.SameWorld env base st st),
    ∀ e ∈ (eval env impl (d.cfg fc) fuel i s b st).errs,
      Spec.schemaLocatedR env d base st.top s [] e

/-- The statement above is FALSE as given: Drafts 3 and 4 do not constrain `$ref`, and a `$ref` whose
    value is a FALSY SCALAR (`None`, `0`, `0.0`, `false`) is followed when the base URI in effect is
    non-empty — `urljoin(base, url)` then continues with `if not url: return base`, so it is read as the
    empty reference (`JS.refReading`) — while `Spec.navR` hops at string references only.  Draft 4,
    `{"id": "urn:root", "type": "object", "properties": {"x": {"$ref": 0}}}`, instance `{"x": 1}`: the
    property is validated against the root schema, the error's schema path `properties/x/type` cannot
    be followed through `{"$ref": 0}`. -/
theorem schema_located_refs_counterexample : ¬ schema_located_refs_statement := by
  intro h
  exact LocatedRef.Falsy.refute (k := skey "type") (by decide) LocatedRef.Falsy.paths4 LocatedRef.Falsy.nav4
    (h LocatedRef.Ex.env LocatedRef.Ex.stable LocatedRef.Ex.impl .d4 none 3 LocatedRef.Ex.inst
      LocatedRef.Falsy.schema4 LocatedRef.Falsy.wf_schema4 [([], LocatedRef.Falsy.schema4)]
      (LocatedRef.Ex.worldOK _ LocatedRef.Falsy.wf_schema4) none _
      (Props.C15.sameWorld_iff.2 (LocatedRef.Ex.sameWorld _)))

/-- The statement with the missing hypothesis made explicit: no `$ref` member — of `s` (`hrs`), of the
    documents the caller supplied or retrieval yields (`hrw`) — has a falsy scalar value
    (`JS.refsProper`; C03's proviso `Spec.refsAreStrings` implies it:
    `LocatedRef.Falsy.refsProper_of_refsAreStrings`). -/
theorem schema_located_refs_partial (env : Env) (hf : Props.C15.StableFetch env) (impl : FmtImpl) (d : Draft)
    (fc : Option FormatChecker) (fuel : Nat) (i s : Json) (hws : Spec.WF s = true)
    (hrs : refsProper s = true)
    (base : List (Str × Json)) (hw : Spec.WorldOK env base) (hrw : LocatedRef.RefsProperWorld env base)
    (b : Option Nat) (st : RState) (hst : Props.C15.SameWorld env base st st) :
    ∀ e ∈ (eval env impl (d.cfg fc) fuel i s b st).errs,
      Spec.schemaLocatedR env d base st.top s [] e :=
  LocatedRef.schemaR_eval hf hw hrw impl fc fuel i s st.scopes b st hws hrs
    ⟨(Props.C15.sameWorld_iff.1 hst).left, rfl⟩

/-- non-vacuity: `{"definitions": {"a": {"type": "string"}}, "properties": {"x": {"$ref":
    "#/definitions/a"}}}` (Draft 7) stored under the base URI `""` of a fresh resolver, instance
    `{"x": 1}`: the hypotheses hold, the run yields one error — keyword value `"string"`, schema path
    `properties/x/type`, which names neither the reference nor `definitions/a` — and the theorem
    locates it: the walk from the root hops through the reference to `"string"`. -/
example :
    ∃ e ∈ (eval LocatedRef.Ex.env LocatedRef.Ex.impl (Draft.d7.cfg none) 3 LocatedRef.Ex.inst
        LocatedRef.Ex.schema none (LocatedRef.Ex.st LocatedRef.Ex.schema)).errs,
      e.schemaPath = [.key (skey "properties"), .key (skey "x"), .key (skey "type")]
      ∧ e.info.map (·.kwVal) = some (.str (skey "string"))
      ∧ Spec.schemaLocatedR LocatedRef.Ex.env .d7 [([], LocatedRef.Ex.schema)] [] LocatedRef.Ex.schema [] e := by
  have hp := LocatedRef.Ex.paths
  have h := schema_located_refs_partial LocatedRef.Ex.env LocatedRef.Ex.stable LocatedRef.Ex.impl .d7 none 3
    LocatedRef.Ex.inst LocatedRef.Ex.schema LocatedRef.Ex.wf_schema LocatedRef.Falsy.rp_schema
    [([], LocatedRef.Ex.schema)]
    (LocatedRef.Ex.worldOK _ LocatedRef.Ex.wf_schema) (LocatedRef.Falsy.refsProperWorld _ LocatedRef.Falsy.rp_schema)
    none (LocatedRef.Ex.st LocatedRef.Ex.schema)
    (Props.C15.sameWorld_iff.2 (LocatedRef.Ex.sameWorld _))
  cases hes : (eval LocatedRef.Ex.env LocatedRef.Ex.impl (Draft.d7.cfg none) 3 LocatedRef.Ex.inst
      LocatedRef.Ex.schema none (LocatedRef.Ex.st LocatedRef.Ex.schema)).errs with
  | nil => rw [hes] at hp; cases hp
  | cons e es =>
    rw [hes] at hp h
    simp only [List.map_cons, List.cons.injEq, Prod.mk.injEq] at hp
    exact ⟨e, List.mem_cons_self .., hp.1.1, hp.1.2, h e (List.mem_cons_self ..)⟩

/-- the walk of the example, computed: three steps and one hop -/
example : Spec.navR LocatedRef.Ex.env .d7 [([], LocatedRef.Ex.schema)] false 4 [] LocatedRef.Ex.schema
    [.key (skey "properties"), .key (skey "x"), .key (skey "type")] = some (.str (skey "string")) := by
  decide +kernel

/-- `schema_located_refs` read with the FIRST version of JS/Spec/LocatedRef.lean
    (`LocatedRef.Given.navR`, kept verbatim in JS/Proofs/LocatedRef.lean): every object on the path is
    taken for a schema, and a reference is followed also before Draft 3 `required` is read off a
    property subschema. It is FALSE (the two counterexamples below); the specification was
    corrected: the walk is schema-aware (`Spec.navIn`, `Spec.containerKw`), the identifier next to a
    `$ref` key is ignored (`Spec.baseIn`), and the Draft 3 `required` exception of
    `Spec.schemaLocatedR` reads the value off the property subschema itself. -/
def schema_located_refs_given_statement : Prop :=
  ∀ (env : Env) (_ : Props.C15.StableFetch env) (impl : FmtImpl) (d : Draft)
    (fc : Option FormatChecker) (fuel : Nat) (i s : Json) (_ : Spec.WF s = true)
    (base : List (Str × Json)) (_ : Spec.WorldOK env base)
    (b : Option Nat) (st : RState) (_ : Props.C15.SameWorld env base st st),
    ∀ e ∈ (eval env impl (d.cfg fc) fuel i s b st).errs,
      LocatedRef.Given.schemaLocatedR env d base st.top s [] e

/-- Draft 3, `{"properties": {"a": {"$ref": "#/definitions/x", "required": true}}, "definitions":
    {"x": {}}}`, instance `{}`: the error's path `properties/a/required` is followed through the
    reference to `{}`, which has no `required` (the implementation reads `required` off the property
    subschema itself, next to the `$ref`) -/
theorem schema_located_refs_given_counterexample : ¬ schema_located_refs_given_statement := by
  intro h
  exact LocatedRef.Given.refute LocatedRef.Given.paths3 LocatedRef.Given.nav3
    (h LocatedRef.Ex.env LocatedRef.Ex.stable LocatedRef.Ex.impl .d3 none 3 (.obj [])
      LocatedRef.Given.schema3 LocatedRef.Given.wf_schema3 [([], LocatedRef.Given.schema3)]
      (LocatedRef.Ex.worldOK _ LocatedRef.Given.wf_schema3) none _ (Props.C15.sameWorld_iff.2 (LocatedRef.Ex.sameWorld _)))

/-- Draft 7, `{"properties": {"$ref": "#/definitions/a", "x": {"type": "string"}}, "definitions":
    {"a": {}}}` (a property NAMED `$ref`), instance `{"x": 1}`: the `properties` map is taken for a
    reference object -/
theorem schema_located_refs_given_counterexample_map : ¬ schema_located_refs_given_statement := by
  intro h
  exact LocatedRef.Given.refute LocatedRef.Given.paths7 LocatedRef.Given.nav7
    (h LocatedRef.Ex.env LocatedRef.Ex.stable LocatedRef.Ex.impl .d7 none 3 LocatedRef.Ex.inst
      LocatedRef.Given.schema7 LocatedRef.Given.wf_schema7 [([], LocatedRef.Given.schema7)]
      (LocatedRef.Ex.worldOK _ LocatedRef.Given.wf_schema7) none _ (Props.C15.sameWorld_iff.2 (LocatedRef.Ex.sameWorld _)))

/-- absolute paths are the parent's absolute path followed by the relative path (what
    `absolute_path` / `absolute_schema_path` compute through the parent chain) -/
theorem closure_paths (pp psp : List PathElem) (e : Err) :
    ∀ t ∈ Err.closure pp psp e, ∃ rel relS, t.1 = pp ++ rel ∧ t.2.1 = psp ++ relS :=
  Located.closure_paths_aux pp psp e

theorem closure_head (pp psp : List PathElem) (e : Err) :
    (Err.closure pp psp e).head? = some (pp ++ e.path, psp ++ e.schemaPath, e) :=
  Located.closure_head_aux pp psp e

/-- every error carries keyword, value, instance and schema (nothing is left unset) -/
theorem info_set (env : Env) (impl : FmtImpl) (cfg : Cfg) (fuel : Nat) (i s : Json) (b : Option Nat) (st : RState) :
    ∀ e ∈ (eval env impl cfg fuel i s b st).errs, e.info.isSome = true :=
  Located.info_eval env impl cfg fuel i s b st

end JS.Props.C06

