/-
  C07 — validation is pure and history-independent; a validator can be reused forever.
  Property theorems only. Model: `eval` over `RState` (JS.Eval, JS.Resolver).
  Non-modification of instance, schema and store documents holds by construction in a
  functional model and is decided on the implementation by the monitor (DESIGN §6 C07).
-/
import JS.Proofs.Scope
namespace JS.Props.C07
open JS

/-- **Scope restoration.** Whatever the schema, instance, fuel, budget (i.e. also when the
    consumer takes `k` errors and closes or drops the iterator) and whatever ends the run
    (normal end, early close, an exception such as `RefResolutionError`, recursion limit), the
    resolver's scope stack afterwards is exactly what it was before. -/
theorem scope_restore (env : Env) (impl : FmtImpl) (cfg : Cfg) (fuel : Nat) (inst schema : Json)
    (b : Option Nat) (st : RState) :
    (eval env impl cfg fuel inst schema b st).st.scopes = st.scopes :=
  (scopeOK_eval env impl cfg fuel inst schema).restore b st

/-- `resolve` raises before anything is pushed: it never changes the scope stack. -/
theorem resolve_keeps_scopes (env : Env) (ref : Str) (st : RState) :
    (resolve env ref st).2.scopes = st.scopes :=
  resolve_scopes env ref st

/-- non-vacuity: a concrete run with a `$ref`, an `id` push and an early close -/
example : (eval default ⟨fun _ _ => none⟩ (default : Cfg) 3 .null (.obj []) (some 1) default).st.scopes
    = (default : RState).scopes := scope_restore ..

end JS.Props.C07
