/-
  C07 — validation is pure and history-independent; a validator can be reused forever.
  Property theorems only. Model: `eval` over `RState` (JS.Eval, JS.Resolver).
  Non-modification of instance, schema and store documents holds by construction in a
  functional model and is decided on the implementation by the monitor (DESIGN §6 C07).
-/
import JS.Proofs.Scope
import JS.Props.C15
namespace JS.Props.C07
open JS

/-- **Scope restoration.** Whatever the schema, instance, fuel, budget (i.e. also when the
    consumer takes `k` errors and closes or drops the iterator) and whatever ends the run
    (normal end, early close, an exception such as `RefResolutionError`, recursion limit), the
    resolver's scope stack afterwards is exactly what it was before. -/
theorem scope_restore (env : Env) (impl : FmtImpl) (cfg : Cfg) (fuel : Nat) (inst schema : Json)
    (b : Option Nat) (st : RState) :
    (eval env impl cfg fuel inst schema b st).st.scopes = st.scopes :=
  (scopeOK_eval env impl cfg fuel inst schema).restore b st

/-- `resolve` raises before anything is pushed: it never changes the scope stack. -/
theorem resolve_keeps_scopes (env : Env) (ref : Str) (st : RState) :
    (resolve env ref st).2.scopes = st.scopes :=
  resolve_scopes env ref st

/-- **History independence** — the statement as first given: after ANY history of operations from
    a fresh resolver state `st₀`, every operation gives exactly the result it gives on `st₀` itself,
    provided retrieval is stable. It is FALSE (`history_independent_counterexample`) for one reason
    only: when the oracle has no answer for a retrieval, the observable result contains
    `Stop.miss (.fetch n u)` where `n` is the resolver's attempt counter, which the history has
    advanced. With an oracle that answers every retrieval (success or failure) it holds:
    `history_independent_partial`. -/
def history_independent_statement : Prop :=
  ∀ (env : Env) (_ : Props.C15.StableFetch env) (impl : FmtImpl) (cfg : Cfg)
    (fuel : Nat) (schema : Json) (st₀ : RState) (_ : Props.C15.SameWorld env st₀.store st₀ st₀)
    (ops : List Op) (op : Op),
    (stepOp env impl cfg fuel schema (runHist env impl cfg fuel schema st₀ ops).2 op).1
      = (stepOp env impl cfg fuel schema st₀ op).1

/-- resolve `a` (retrievable), then `b` (the oracle has no answer): attempt 1 instead of attempt 0 -/
theorem history_independent_counterexample : ¬ history_independent_statement := by
  intro h
  have h1 := h Knowledge.Cex.env Knowledge.Cex.stable Knowledge.Cex.impl Knowledge.Cex.cfg 0 .null
    (Knowledge.Cex.st true 0) (Props.C15.sameWorld_iff.2 (Knowledge.Cex.sameWorld ..))
    [.resolve ['a']] (.resolve ['b'])
  have h2 := congrArg Knowledge.Cex.opClock h1
  rw [Knowledge.Cex.hi_left, Knowledge.Cex.hi_right] at h2
  cases h2

/-- **History independence.** The result of an operation does not depend on what the same
    validator object did before — which instances it validated, whether iterations were exhausted,
    closed early or ended in an exception, what was retrieved meanwhile: after ANY history of
    operations from a fresh resolver state `st₀`, every operation gives exactly the result it gives
    on `st₀` itself, provided retrieval is stable (a URI always yields the same outcome: what was
    retrieved before is retrievable now, A-handlers) and the oracle answers every retrieval
    (extra hypothesis `hans`; statement otherwise as given). -/
theorem history_independent_partial (env : Env) (hf : Props.C15.StableFetch env)
    (hans : Props.C15.FetchAnswered env) (impl : FmtImpl) (cfg : Cfg)
    (fuel : Nat) (schema : Json) (st₀ : RState) (h₀ : Props.C15.SameWorld env st₀.store st₀ st₀)
    (ops : List Op) (op : Op) :
    (stepOp env impl cfg fuel schema (runHist env impl cfg fuel schema st₀ ops).2 op).1
      = (stepOp env impl cfg fuel schema st₀ op).1 :=
  Knowledge.hist_indep hf hans impl cfg fuel schema st₀ (Props.C15.sameWorld_iff.1 h₀) ops op

/-- the resolution scope between operations is what it was before the first call -/
theorem scope_idle (env : Env) (impl : FmtImpl) (cfg : Cfg) (fuel : Nat) (schema : Json) (st₀ : RState)
    (ops : List Op) :
    (runHist env impl cfg fuel schema st₀ ops).2.scopes = st₀.scopes :=
  Knowledge.runHist_scopes env impl cfg fuel schema ops st₀

/-- non-vacuity: a concrete run with a `$ref`, an `id` push and an early close -/
example : (eval default ⟨fun _ _ => none⟩ (default : Cfg) 3 .null (.obj []) (some 1) default).st.scopes
    = (default : RState).scopes := scope_restore ..

end JS.Props.C07
