/-
  C08 — enum, const and uniqueItems use JSON equality, at every nesting depth.
  Property theorems only; helper lemmas live in JS/Proofs/Equality.lean.
  Model: `equal`, `uniq` (JS.PyOps), `kwConst`, `kwEnum`, `kwUniqueItems` (JS.Keywords).
  Specification: `Spec.jsonEq`, `Spec.allDistinct` (JS.Spec.Equality).
-/
import JS.Proofs.Equality
namespace JS.Props.C08
open JS

/-- The implementation's equality is JSON data-model equality at every depth
    (`WF`: object keys are distinct, as `json.loads` guarantees). -/
theorem equal_is_jsonEq (a b : Json) (ha : Spec.WF a = true) (hb : Spec.WF b = true) :
    equal a b = Spec.jsonEq a b := by
  exact equal_eq_jsonEq a b ha hb

/-- `const`: no error exactly when instance and constant are JSON-equal. -/
theorem const_spec (c x : Json) (hc : Spec.WF c = true) (hx : Spec.WF x = true) (b : Option Nat) (st : RState)
    (hb : b ≠ some 0) :
    ((kwConst c x b st).errs = [] ↔ Spec.jsonEq x c = true) ∧ (kwConst c x b st).st = st := by
  refine ⟨?_, kwConst_st c x b st⟩
  rw [kwConst_errs c x b st hb, equal_eq_jsonEq x c hx hc]

/-- `enum`: no error exactly when some listed value is JSON-equal to the instance. -/
theorem enum_spec (es : List Json) (x : Json) (hes : Spec.WFList es = true) (hx : Spec.WF x = true)
    (b : Option Nat) (st : RState) (hb : b ≠ some 0) :
    (kwEnum (.arr es) x b st).errs = [] ↔ es.any (Spec.jsonEq x) = true := by
  rw [kwEnum_errs es x b st hb, any_congr_mem es (equal x) (Spec.jsonEq x)
    (fun e he => equal_eq_jsonEq x e hx (WFList_mem hes e he))]

/-- `uniq` (both of its code paths) decides pairwise JSON-distinctness. -/
theorem uniq_spec (xs : List Json) (hxs : Spec.WFList xs = true) : uniq xs = Spec.allDistinct xs := by
  exact uniq_eq_allDistinct xs hxs

/-- `uniqueItems: true` on an array, under any type checker whose `array` is the built-in one. -/
theorem uniqueItems_spec (cfg : Cfg) (xs : List Json) (hxs : Spec.WFList xs = true)
    (harr : lookupS (skey "array") cfg.types = some .isArray)
    (b : Option Nat) (st : RState) (hb : b ≠ some 0) :
    (kwUniqueItems cfg (.bool true) (.arr xs) b st).errs = [] ↔ Spec.allDistinct xs = true := by
  rw [kwUniqueItems_errs cfg xs harr b st hb, uniq_eq_allDistinct xs hxs]

/-- The three keywords use one relation: `const: c` accepts `x` exactly when `enum: [c]` does and
    exactly when `uniqueItems` rejects `[c, x]`. -/
theorem three_agree (c x : Json) (hc : Spec.WF c = true) (hx : Spec.WF x = true) (st : RState) :
    ((kwConst c x none st).errs = [] ↔ (kwEnum (.arr [c]) x none st).errs = [])
    ∧ ((kwConst c x none st).errs = [] ↔ uniq [c, x] = false) := by
  have hn : (none : Option Nat) ≠ some 0 := by simp
  have hw : Spec.WFList [c, x] = true := by simp [Spec.WFList, hc, hx]
  rw [kwConst_errs c x none st hn, kwEnum_errs [c] x none st hn, uniq_eq_allDistinct _ hw]
  simp [Spec.allDistinct, equal_eq_jsonEq x c hx hc, jsonEq_symm' x c hx hc]

/-- JSON equality is an equivalence on well-formed values (sanity of the specification). -/
theorem jsonEq_refl (a : Json) (ha : Spec.WF a = true) : Spec.jsonEq a a = true := by
  exact jsonEq_refl' a ha
theorem jsonEq_symm (a b : Json) (ha : Spec.WF a = true) (hb : Spec.WF b = true) :
    Spec.jsonEq a b = Spec.jsonEq b a := by
  exact jsonEq_symm' a b ha hb

/-! Non-vacuity and the points the property names (these are *tests*, not the claim). -/
example : equal (.arr [.num (.int 0)]) (.arr [.bool false]) = false := by decide +kernel
example : equal (.num (.int 1)) (.num (.flt false 1 0)) = true := by decide +kernel
example : equal (.num (.int (2^53))) (.num (.int (2^53 + 1))) = false := by decide +kernel
example : equal (.obj [("a".toList, .num (.int 1)), ("b".toList, .null)])
                (.obj [("b".toList, .null), ("a".toList, .num (.flt false 2 (-1)))]) = true := by decide +kernel
example : uniq [.arr [.num (.int 0)], .arr [.bool false], .arr [.num (.int 0)]] = false := by decide +kernel
example : Spec.WF (.obj [("a".toList, .arr [.obj []])]) = true := by decide +kernel

end JS.Props.C08
