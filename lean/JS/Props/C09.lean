/-
  C09 — numeric keywords are exact for numbers of any magnitude and never raise.
  Property theorems only; helper lemmas live in JS/Proofs/Numeric.lean (which may import Mathlib).
  Model: `Num.lt/le/eq`, `kwBound` and its eight instances, `multipleOfFailed`, `kwMultipleOf`.
  Specification: `Spec.val : Num → Rat`.
-/
import JS.Proofs.Numeric
namespace JS.Props.C09
open JS

/-! ### comparisons are decided on exact mathematical values -/

theorem lt_exact (a b : Num) : Num.lt a b = true ↔ Spec.val a < Spec.val b := Num.lt_iff a b
theorem le_exact (a b : Num) : Num.le a b = true ↔ Spec.val a ≤ Spec.val b := Num.le_iff a b
theorem eq_exact (a b : Num) : Num.eq a b = true ↔ Spec.val a = Spec.val b := Num.eq_iff a b

/-- the built-in `number` predicate is in force -/
def NumberGate (cfg : Cfg) : Prop := lookupS (skey "number") cfg.types = some .isNumber

/-- drafts 6/7: `minimum`, `maximum`, `exclusiveMinimum`, `exclusiveMaximum` -/
theorem bounds_exact_d67 (cfg : Cfg) (hg : NumberGate cfg) (i b : Num) (st : RState) :
    ((kwMinimum cfg (.num b) (.num i) none st).errs = [] ↔ Spec.val b ≤ Spec.val i)
    ∧ ((kwMaximum cfg (.num b) (.num i) none st).errs = [] ↔ Spec.val i ≤ Spec.val b)
    ∧ ((kwExclusiveMinimum cfg (.num b) (.num i) none st).errs = [] ↔ Spec.val b < Spec.val i)
    ∧ ((kwExclusiveMaximum cfg (.num b) (.num i) none st).errs = [] ↔ Spec.val i < Spec.val b) := by
  exact kwBounds_d67 cfg hg i b st

/-- drafts 3/4: the boolean modifier read from the sibling keyword selects `<` or `≤` -/
theorem bounds_exact_d34 (cfg : Cfg) (hg : NumberGate cfg) (i b : Num) (kvs : List (Str × Json)) (st : RState) :
    ((kwMinimumDraft3Draft4 cfg (.num b) (.num i) (.obj kvs) none st).errs = [] ↔
        if truthy ((Json.lookup (skey "exclusiveMinimum") kvs).getD (.bool false))
        then Spec.val b < Spec.val i else Spec.val b ≤ Spec.val i)
    ∧ ((kwMaximumDraft3Draft4 cfg (.num b) (.num i) (.obj kvs) none st).errs = [] ↔
        if truthy ((Json.lookup (skey "exclusiveMaximum") kvs).getD (.bool false))
        then Spec.val i < Spec.val b else Spec.val i ≤ Spec.val b) := by
  exact kwBounds_d34 cfg hg i b kvs st

/-- non-numbers are ignored by every bound keyword -/
theorem bounds_ignore_non_numbers (cfg : Cfg) (hg : NumberGate cfg) (t : String) (f : Num → Num → Bool)
    (bound inst : Json) (h : inst.isNumJ = false) (b : Option Nat) (st : RState) :
    (kwBound cfg t f bound inst b st).errs = [] ∧ (kwBound cfg t f bound inst b st).stop = .done
      ∨ (kwBound cfg t f bound inst b st).stop = .budget := by
  rw [kwBound_nonnum cfg hg t f bound inst h]
  exact nothing_out b st

/-! ### multipleOf / divisibleBy -/

/-- integer operands of any size: exact divisibility -/
theorem multipleOf_int (i d : Int) (hd : d ≠ 0) :
    multipleOfFailed (.int i) (.int d) = .ok (decide (¬ d ∣ i)) :=
  multipleOfFailed_int i d hd

/-- no finite operands make it raise (a zero divisor is excluded by every metaschema) -/
theorem multipleOf_never_raises (i d : Num) (hd : d.isZero = false) :
    ∃ failed, multipleOfFailed i d = .ok failed :=
  multipleOfFailed_ok i d hd

/-- the `Fraction` fallback is exact -/
theorem exactMultiple_spec (a b : Num) (hb : b.isZero = false) :
    Num.exactMultiple a b = true ↔ Spec.isInt (Spec.val a / Spec.val b) :=
  Num.exactMultiple_iff a b hb

/-- `exactDouble?` recognises exactly the binary64 values -/
theorem exactDouble_spec (num den : Nat) (hden : 0 < den) :
    (∃ m e, Num.exactDouble? num den = some (m, e) ∧ (num : Rat) / (den : Rat) = (m : Rat) * (2 : Rat) ^ e)
      ↔ Spec.isDouble ((num : Rat) / (den : Rat)) :=
  Num.exactDouble?_iff num den hden

/-- float divisor, exact sub-domain: the (converted) instance is exactly representable and the
    exact quotient is representable or overflows: the verdict is exact divisibility. This covers
    any float instance against a power-of-two divisor, including an overflowing quotient. -/
theorem multipleOf_float_divisor_exact (i d : Num) (hdf : d.isFloat = true) (hd : d.isZero = false)
    (hi : Spec.isDouble (Spec.val i))
    (hq : Spec.isDouble (Spec.val i / Spec.val d) ∨ (2 : Rat) ^ (1024 : Nat) ≤ Spec.val i / Spec.val d
        ∨ Spec.val i / Spec.val d ≤ -(2 : Rat) ^ (1024 : Nat)) :
    multipleOfFailed i d = .ok (decide (¬ Num.exactMultiple i d = true)) :=
  multipleOfFailed_float_divisor i d hdf hd hi hq

/-- integer divisor against a float instance, exact sub-domain: the divisor converts exactly -/
theorem multipleOf_int_divisor_exact (x : Num) (m : Int) (hx : x.isFloat = true) (hm : m ≠ 0)
    (hconv : Spec.isDouble (m : Rat)) :
    multipleOfFailed x (.int m) = .ok (decide (¬ Num.exactMultiple x (.int m) = true)) :=
  multipleOfFailed_int_divisor x m hx hm hconv

/-- the keyword itself, under the built-in number gate, never raises for a non-zero divisor -/
theorem kwMultipleOf_total (cfg : Cfg) (hg : NumberGate cfg) (i d : Num) (hd : d.isZero = false)
    (b : Option Nat) (st : RState) :
    ∀ e, (kwMultipleOf cfg (.num d) (.num i) b st).stop ≠ .raised e :=
  kwMultipleOf_no_raise cfg hg i d hd b st

/-! tests (not the claim) -/
deriving instance DecidableEq for Except
example : multipleOfFailed (.int (10 ^ 400)) (.flt false 1 (-1)) = .ok false := by decide +kernel
example : multipleOfFailed (.flt false 3 (-1)) (.int (10 ^ 400)) = .ok true := by decide +kernel
example : Num.lt (.int (2 ^ 53)) (.flt false (2 ^ 53 + 2) 0) = true := by decide +kernel
example : Num.eq (.int (2 ^ 53 + 1)) (.flt false 1 53) = false := by decide +kernel

end JS.Props.C09
