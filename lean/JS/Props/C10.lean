/-
  C10 — unknown, annotation and other-draft keywords never affect validation.
  Property theorems only; helper lemmas live in JS/Proofs/Inert.lean.
  The keyword tables, type tables and id keys are REGENERATED from the Python source on every run
  (JS/Generated/Tables.lean), so the table theorems are re-checked against what the code says now.
-/
import JS.Proofs.Inert
import JS.Proofs.InertNested
import JS.Proofs.InertRefs
namespace JS.Props.C10
open JS

/-- each draft's keyword table is exactly its vocabulary, every keyword bound to the function
    the draft prescribes (a permutation: the order of the Python dict is irrelevant) -/
theorem table_exact (d : Draft) : (d.keywords.isPerm (Spec.expected d)) = true := by
  cases d <;> decide +kernel

theorem types_exact (d : Draft) : (d.types.isPerm (Spec.expectedTypes d)) = true := by
  cases d <;> decide +kernel

/-- `id` establishes a base URI only in drafts 3/4, `$id` only in drafts 6/7 -/
theorem id_key (d : Draft) : d.idKey = Spec.expectedIdKey d := by
  cases d <;> rfl

/-- consequently: the keywords of other drafts and of later specifications are unknown to a draft -/
theorem other_draft_keywords_unknown :
    (∀ kw ∈ ["const", "contains", "propertyNames", "if", "then", "else", "extends", "disallow", "divisibleBy",
              "$id", "$defs", "unevaluatedProperties", "prefixItems", "dependentRequired", "title", "description",
              "default", "examples", "$comment", "definitions"], lookupS (Spec.k kw) (Draft.d4).keywords = none)
    ∧ (∀ kw ∈ ["extends", "disallow", "divisibleBy", "id", "if", "then", "else", "$defs", "unevaluatedItems",
              "title", "description", "default", "examples", "$comment", "definitions"], lookupS (Spec.k kw) (Draft.d6).keywords = none)
    ∧ (∀ kw ∈ ["extends", "disallow", "divisibleBy", "id", "then", "else", "$defs", "$anchor", "$recursiveRef",
              "title", "description", "default", "examples", "$comment", "definitions"], lookupS (Spec.k kw) (Draft.d7).keywords = none)
    ∧ (∀ kw ∈ ["allOf", "anyOf", "oneOf", "not", "const", "contains", "propertyNames", "if", "multipleOf", "required",
              "minProperties", "maxProperties", "$id", "title", "description", "default"], lookupS (Spec.k kw) (Draft.d3).keywords = none) := by
  decide +kernel

/-- what inserting a key into the enclosing schema necessarily changes in an error: the recorded
    enclosing schema itself (and nothing else) -/
def eraseSchema : Err → Err
  | .mk m info p sp ctx c => .mk m (info.map fun i => { i with schema := .null }) p sp ctx c

/-- `eraseSchema` is the `eraseSch` of JS/Proofs/Inert.lean -/
theorem eraseSchema_eq : eraseSchema = eraseSch := by
  funext e; cases e; rfl

/-- **Unknown keywords are inert.** For any validator class, inserting a key that is not in its
    keyword table, is not its id key, is not `$ref` and is not one of the sibling names keyword
    functions consult, anywhere among the keys of a schema object, leaves the errors (up to the
    recorded enclosing schema), the stop reason and the resolver state unchanged — for every value
    of the key, every instance, budget and state, and every behaviour `rec` of the subschemas. -/
theorem unknown_inert (env : Env) (impl : FmtImpl) (cfg : Cfg) (rec : Rec)
    (pre post : List (Str × Json)) (key : Str) (v inst : Json) (b : Option Nat) (st : RState)
    (hk : lookupS key cfg.keywords = none) (hid : key ≠ cfg.idKey) (href : key ≠ skey "$ref")
    (hc : key ∉ Spec.consulted) :
    ((evalStep env impl cfg rec inst (.obj (pre ++ (key, v) :: post)) b st).errs.map eraseSchema
        = (evalStep env impl cfg rec inst (.obj (pre ++ post)) b st).errs.map eraseSchema)
    ∧ (evalStep env impl cfg rec inst (.obj (pre ++ (key, v) :: post)) b st).stop
        = (evalStep env impl cfg rec inst (.obj (pre ++ post)) b st).stop
    ∧ (evalStep env impl cfg rec inst (.obj (pre ++ (key, v) :: post)) b st).st
        = (evalStep env impl cfg rec inst (.obj (pre ++ post)) b st).st := by
  rw [eraseSchema_eq]
  exact evalStep_unknown_sim env impl cfg rec pre post key v inst hk hid href hc b st

/-- **Keywords next to `$ref` are ignored**: with a (non-null) `$ref` present, any other key — the
    class's id key included — can be inserted without effect.

    FALSE as stated for arbitrary validator classes (`ref_siblings_inert_counterexample`): `cfg` may
    bind `$ref` to a keyword function that reads sibling keywords.  It holds when the function bound
    to `$ref` reads no siblings, or the inserted key is not a consulted name
    (`ref_siblings_inert_partial`), in particular for the four drafts (`ref_siblings_inert_drafts`). -/
def ref_siblings_inert_statement : Prop :=
    ∀ (env : Env) (impl : FmtImpl) (cfg : Cfg) (rec : Rec)
    (pre post : List (Str × Json)) (key : Str) (v ref inst : Json) (b : Option Nat) (st : RState)
    (_hkey : key ≠ skey "$ref")
    (_href : Json.lookup (skey "$ref") (pre ++ post) = some ref) (_hnn : ref ≠ .null),
    ((evalStep env impl cfg rec inst (.obj (pre ++ (key, v) :: post)) b st).errs.map eraseSchema
        = (evalStep env impl cfg rec inst (.obj (pre ++ post)) b st).errs.map eraseSchema)
    ∧ (evalStep env impl cfg rec inst (.obj (pre ++ (key, v) :: post)) b st).stop
        = (evalStep env impl cfg rec inst (.obj (pre ++ post)) b st).stop
    ∧ (evalStep env impl cfg rec inst (.obj (pre ++ (key, v) :: post)) b st).st
        = (evalStep env impl cfg rec inst (.obj (pre ++ post)) b st).st

/-- the statement with the missing hypothesis made explicit: the function the class binds to
    `$ref` (if any) reads no sibling keywords — or the inserted key is not a consulted name -/
theorem ref_siblings_inert_partial (env : Env) (impl : FmtImpl) (cfg : Cfg) (rec : Rec)
    (pre post : List (Str × Json)) (key : Str) (v ref inst : Json) (b : Option Nat) (st : RState)
    (hkey : key ≠ skey "$ref")
    (href : Json.lookup (skey "$ref") (pre ++ post) = some ref) (hnn : ref ≠ .null)
    (hfn : (∀ f, lookupS (skey "$ref") cfg.keywords = some f → f.readsSiblings = false)
            ∨ key ∉ Spec.consulted) :
    ((evalStep env impl cfg rec inst (.obj (pre ++ (key, v) :: post)) b st).errs.map eraseSchema
        = (evalStep env impl cfg rec inst (.obj (pre ++ post)) b st).errs.map eraseSchema)
    ∧ (evalStep env impl cfg rec inst (.obj (pre ++ (key, v) :: post)) b st).stop
        = (evalStep env impl cfg rec inst (.obj (pre ++ post)) b st).stop
    ∧ (evalStep env impl cfg rec inst (.obj (pre ++ (key, v) :: post)) b st).st
        = (evalStep env impl cfg rec inst (.obj (pre ++ post)) b st).st := by
  rw [eraseSchema_eq]
  exact evalStep_refSibling_sim env impl cfg rec pre post key v ref inst hkey href hnn hfn b st

/-- the original statement for the classes of the four drafts (with any format checker) -/
theorem ref_siblings_inert_drafts (d : Draft) (fc : Option FormatChecker) (env : Env) (impl : FmtImpl) (rec : Rec)
    (pre post : List (Str × Json)) (key : Str) (v ref inst : Json) (b : Option Nat) (st : RState)
    (hkey : key ≠ skey "$ref")
    (href : Json.lookup (skey "$ref") (pre ++ post) = some ref) (hnn : ref ≠ .null) :
    ((evalStep env impl (d.cfg fc) rec inst (.obj (pre ++ (key, v) :: post)) b st).errs.map eraseSchema
        = (evalStep env impl (d.cfg fc) rec inst (.obj (pre ++ post)) b st).errs.map eraseSchema)
    ∧ (evalStep env impl (d.cfg fc) rec inst (.obj (pre ++ (key, v) :: post)) b st).stop
        = (evalStep env impl (d.cfg fc) rec inst (.obj (pre ++ post)) b st).stop
    ∧ (evalStep env impl (d.cfg fc) rec inst (.obj (pre ++ (key, v) :: post)) b st).st
        = (evalStep env impl (d.cfg fc) rec inst (.obj (pre ++ post)) b st).st :=
  ref_siblings_inert_partial env impl (d.cfg fc) rec pre post key v ref inst b st hkey href hnn
    (.inl fun f hf => by
      have h : some f = some KwFn.ref := hf.symm.trans (draft_ref_bound d)
      cases h; rfl)

/-- **An id next to `$ref` is ignored** (the repaired defect): in each of the four drafts, with a
    (non-null) `$ref` present, inserting the draft's id key with ANY value, anywhere among the keys,
    leaves the errors (up to the recorded enclosing schema), the stop reason and the resolver state
    unchanged — in particular it establishes no base URI for the reference. -/
theorem id_next_to_ref_inert (d : Draft) (fc : Option FormatChecker) (env : Env) (impl : FmtImpl) (rec : Rec)
    (pre post : List (Str × Json)) (v ref inst : Json) (b : Option Nat) (st : RState)
    (href : Json.lookup (skey "$ref") (pre ++ post) = some ref) (hnn : ref ≠ .null) :
    ((evalStep env impl (d.cfg fc) rec inst (.obj (pre ++ (d.idKey, v) :: post)) b st).errs.map eraseSchema
        = (evalStep env impl (d.cfg fc) rec inst (.obj (pre ++ post)) b st).errs.map eraseSchema)
    ∧ (evalStep env impl (d.cfg fc) rec inst (.obj (pre ++ (d.idKey, v) :: post)) b st).stop
        = (evalStep env impl (d.cfg fc) rec inst (.obj (pre ++ post)) b st).stop
    ∧ (evalStep env impl (d.cfg fc) rec inst (.obj (pre ++ (d.idKey, v) :: post)) b st).st
        = (evalStep env impl (d.cfg fc) rec inst (.obj (pre ++ post)) b st).st :=
  ref_siblings_inert_drafts d fc env impl rec pre post d.idKey v ref inst b st
    (by cases d <;> decide +kernel) href hnn

/-- a class binding `$ref` to the draft-3/4 `minimum` function (which reads `exclusiveMinimum`):
    `{"$ref": 5}` accepts `5`, `{"exclusiveMinimum": true, "$ref": 5}` rejects it -/
theorem ref_siblings_inert_counterexample : ¬ ref_siblings_inert_statement := by
  intro h
  have h1 := (h RefCex.env RefCex.impl RefCex.cfg RefCex.rec [] RefCex.post RefCex.key (.bool true)
    RefCex.five RefCex.five none RefCex.st RefCex.hkey RefCex.href RefCex.hnn).1
  have h2 := congrArg List.length h1
  rw [List.length_map, List.length_map] at h2
  exact RefCex.errs_differ h2

/-- the other spelling of the id keyword is inert in each draft -/
theorem other_id_spelling_unknown :
    lookupS (skey "$id") (Draft.d3).keywords = none ∧ lookupS (skey "$id") (Draft.d4).keywords = none
    ∧ lookupS (skey "id") (Draft.d6).keywords = none ∧ lookupS (skey "id") (Draft.d7).keywords = none
    ∧ skey "$id" ≠ (Draft.d3).idKey ∧ skey "$id" ≠ (Draft.d4).idKey
    ∧ skey "id" ≠ (Draft.d6).idKey ∧ skey "id" ≠ (Draft.d7).idKey := by
  decide +kernel

/-! ### Insertion at ANY subschema position, at any depth

`unknown_inert` is about the keys of one schema object, for an arbitrary behaviour of the
subschemas. The property quantifies over insertions at every position of a schema: `Spec.Ins d s s'`
(JS.Spec.Insertion) says that `s'` is `s` with keys foreign to draft `d` (`Spec.Inert`) inserted into
schema objects at any depth — the value of a member being a schema, an array of schemas or a map
of schemas as the draft says, everything else being data that is left alone. For reference-free
`s` the whole evaluation is then unchanged, up to what such insertions necessarily change in an
error: renderings of schema text (messages), the recorded keyword value and enclosing schema
(`Spec.eraseDeep`). Keyword, recorded instance, both paths, causes, the shape of the context tree,
the way of stopping and the resolver state are identical, for every instance, fuel, budget, state
and format checker. -/

theorem nested_unknown_inert (d : Draft) (fc : Option FormatChecker) (env : Env) (impl : FmtImpl)
    (s s' : Json) (h : Spec.Ins d s s') (hnr : Spec.noRef s = true)
    (fuel : Nat) (inst : Json) (b : Option Nat) (st : RState) :
    ((eval env impl (d.cfg fc) fuel inst s' b st).errs.map Spec.eraseDeep
        = (eval env impl (d.cfg fc) fuel inst s b st).errs.map Spec.eraseDeep)
    ∧ (eval env impl (d.cfg fc) fuel inst s' b st).stop = (eval env impl (d.cfg fc) fuel inst s b st).stop
    ∧ (eval env impl (d.cfg fc) fuel inst s' b st).st = (eval env impl (d.cfg fc) fuel inst s b st).st := by
  have hsim := Nested.eval_recRel d env impl fc fuel inst s s' ⟨h, hnr⟩ b st
  exact ⟨hsim.1.symm, hsim.2.1.symm, hsim.2.2.symm⟩

/-- … in particular the verdict -/
theorem nested_unknown_inert_verdict (d : Draft) (fc : Option FormatChecker) (env : Env) (impl : FmtImpl)
    (s s' : Json) (h : Spec.Ins d s s') (hnr : Spec.noRef s = true)
    (fuel : Nat) (inst : Json) (st : RState) :
    (isValid (eval env impl (d.cfg fc) fuel inst s') st).1 = (isValid (eval env impl (d.cfg fc) fuel inst s) st).1 := by
  have key := nested_unknown_inert d fc env impl s s' h hnr fuel inst (some 1) st
  unfold isValid
  revert key
  generalize eval env impl (d.cfg fc) fuel inst s' (some 1) st = o'
  generalize eval env impl (d.cfg fc) fuel inst s (some 1) st = o
  rintro ⟨he, hs, _⟩
  obtain ⟨es', stop', st'⟩ := o'
  obtain ⟨es, stop, st0⟩ := o
  dsimp only at he hs
  subst hs
  cases es' with
  | nil =>
    cases es with
    | nil => cases stop' <;> rfl
    | cons e es => simp at he
  | cons e' es' =>
    cases es with
    | nil => simp at he
    | cons e es => rfl

/-- the later specifications' keywords (2019-09, 2020-12) are inert in every draft modelled here -/
theorem later_keywords_inert (d : Draft) :
    ∀ kw ∈ ["minContains", "maxContains", "unevaluatedItems", "unevaluatedProperties", "dependentRequired",
             "dependentSchemas", "prefixItems", "$anchor", "$recursiveRef", "$recursiveAnchor", "$dynamicRef",
             "$dynamicAnchor", "$defs", "$vocabulary", "contentSchema", "deprecated", "writeOnly",
             "title", "description", "default", "examples", "$comment", "definitions"],
      Spec.Inert d (Spec.k kw) := by
  unfold Spec.Inert
  cases d <;> decide +kernel

/-! ### the nested statement is not vacuous

Draft 7, two levels of nesting: `{"properties": {"a": {"items": {"type": "integer"}}}, "not": {"maxLength": 2}}`
and the same schema with foreign keys inserted at three depths: `x-note` at the top and inside `not`,
`unevaluatedItems` inside the property subschema, `minContains` inside its `items` subschema. -/

namespace NonVacuous
open Spec

def s : Json :=
  .obj [(k "properties", .obj [(k "a", .obj [(k "items", .obj [(k "type", .str (k "integer"))])])]),
        (k "not", .obj [(k "maxLength", .num (.int 2))])]

def s' : Json :=
  .obj [(k "x-note", .num (.int 1)),
        (k "properties", .obj [(k "a", .obj [(k "unevaluatedItems", .bool false),
            (k "items", .obj [(k "type", .str (k "integer")), (k "minContains", .num (.int 3))])])]),
        (k "not", .obj [(k "maxLength", .num (.int 2)), (k "x-note", .str (k "deep"))])]

theorem xnote_inert : Inert .d7 (k "x-note") := by
  unfold Inert; decide +kernel

theorem ins : Ins .d7 s s' :=
  .obj <|
    .insert (k "x-note") _ xnote_inert <|
    .keep (k "properties") _ _
      (.schemaMap _ _ _ (by decide +kernel) <|
        .cons (k "a") _ _
          (.obj <|
            .insert (k "unevaluatedItems") _ (later_keywords_inert .d7 "unevaluatedItems" (by decide)) <|
            .keep (k "items") _ _
              (.schema _ _ _ (by decide +kernel) <| .obj <|
                .keep (k "type") _ _ (.same _ _) <|
                .insert (k "minContains") _ (later_keywords_inert .d7 "minContains" (by decide)) .nil)
              .nil)
          .nil) <|
    .keep (k "not") _ _
      (.schema _ _ _ (by decide +kernel) <| .obj <|
        .keep (k "maxLength") _ _ (.same _ _) <|
        .insert (k "x-note") _ xnote_inert .nil)
      .nil

theorem noRef_s : noRef s = true := by decide +kernel

/-- the two schemas are different, and evaluate alike on every instance, with or without formats -/
example : s ≠ s' := by decide +kernel

example (fc : Option FormatChecker) (env : Env) (impl : FmtImpl) (fuel : Nat) (inst : Json) (b : Option Nat)
    (st : RState) :
    ((eval env impl (Draft.d7.cfg fc) fuel inst s' b st).errs.map eraseDeep
        = (eval env impl (Draft.d7.cfg fc) fuel inst s b st).errs.map eraseDeep)
    ∧ (eval env impl (Draft.d7.cfg fc) fuel inst s' b st).stop = (eval env impl (Draft.d7.cfg fc) fuel inst s b st).stop
    ∧ (eval env impl (Draft.d7.cfg fc) fuel inst s' b st).st = (eval env impl (Draft.d7.cfg fc) fuel inst s b st).st :=
  nested_unknown_inert .d7 fc env impl s s' ins noRef_s fuel inst b st

/-- and the evaluation in question does report errors: `{"a": ["x"]}` violates the nested `type`
    (a string item) and the `not` (an object is no long string) — two errors on both sides, recorded
    with different schemas -/
def inst : Json := .obj [(k "a", .arr [.str (k "x")])]

example :
    (eval RefCex.env RefCex.impl (Draft.d7.cfg none) 5 inst s none RefCex.st).errs.length = 2
    ∧ (eval RefCex.env RefCex.impl (Draft.d7.cfg none) 5 inst s' none RefCex.st).errs.length = 2
    ∧ (eval RefCex.env RefCex.impl (Draft.d7.cfg none) 5 inst s' none RefCex.st).errs.map (·.info.map (·.schema))
        ≠ (eval RefCex.env RefCex.impl (Draft.d7.cfg none) 5 inst s none RefCex.st).errs.map (·.info.map (·.schema)) := by
  decide +kernel

end NonVacuous

/-! ### Insertion at any subschema position, in schemas WITH references

A `$ref` is resolved against the resolver state, so the run on `s'` (= `s` with foreign keys
inserted) starts from a state that holds the correspondingly modified documents:
`Spec.InsState d st st'` — same scope stack, same memo capacity, `cache_remote`, retrieval clock and
log; store and memo hold `Ins`-related documents under the same keys.  Whatever is retrieved through
`env.fetch` is the same for both runs.

The guard is the property's own proviso ("foreign keywords that no reference leads into"):
`Spec.Lands d env G st.store st'.store` — every reference string of `G`, joined with any scope, that
addresses a document of the two stores resolves in both documents to `Ins`-related values, or in
neither.  `G` is any set of strings containing the reference strings that can be met
(`Spec.RefsIn G s'`, `Spec.Covered G st'`, `Spec.WorldCovered env G`); the canonical choice is
`Spec.refsMet env s' st'` (`nested_unknown_inert_refs_met`).  Without the guard the statement is
false (`nested_unknown_inert_refs_needs_guard`).

Conclusion: the same errors up to `Spec.eraseDeep`, the same way of stopping, final states related
in the same way (with the guard and the coverage again, so that the statement composes over a
history of runs).

The statement as first given (`nested_unknown_inert_refs_statement`) is FALSE
(`nested_unknown_inert_refs_counterexample`): Drafts 3 and 4 do not constrain `$ref`, and a `$ref`
whose value is a FALSY SCALAR (`None`, `0`, `0.0`, `false`) is followed, as the EMPTY reference, when
the base URI in effect is non-empty (`urljoin(base, url)` then continues with `if not url: return base`;
`JS.refReading`) — a reference that
`Spec.refsOf`, which lists the STRING values of `$ref` members, does not see, so that `G` need not
contain it and the guard says nothing about where it lands.  The missing hypothesis, made explicit
in `nested_unknown_inert_refs_partial`: the empty reference belongs to `G` (`hempty`). -/

def nested_unknown_inert_refs_statement : Prop :=
  ∀ (d : Draft) (fc : Option FormatChecker) (env : Env) (impl : FmtImpl)
    (G : Str → Prop) (s s' : Json) (_h : Spec.Ins d s s') (st st' : RState)
    (_hst : Spec.InsState d st st')
    (_hs' : Spec.RefsIn G s') (_hcov : Spec.Covered G st') (_hworld : Spec.WorldCovered env G)
    (_hguard : Spec.Lands d env G st.store st'.store)
    (fuel : Nat) (inst : Json) (b : Option Nat),
    ((eval env impl (d.cfg fc) fuel inst s' b st').errs.map Spec.eraseDeep
        = (eval env impl (d.cfg fc) fuel inst s b st).errs.map Spec.eraseDeep)
    ∧ (eval env impl (d.cfg fc) fuel inst s' b st').stop = (eval env impl (d.cfg fc) fuel inst s b st).stop
    ∧ Spec.InsState d (eval env impl (d.cfg fc) fuel inst s b st).st (eval env impl (d.cfg fc) fuel inst s' b st').st
    ∧ Spec.Covered G (eval env impl (d.cfg fc) fuel inst s' b st').st
    ∧ Spec.Lands d env G (eval env impl (d.cfg fc) fuel inst s b st).st.store
        (eval env impl (d.cfg fc) fuel inst s' b st').st.store

/-- the statement with the missing hypothesis made explicit: the empty reference — what a `$ref` with
    a falsy scalar value is read as (under a non-empty base) — is one of the references that can be met
    (`hempty`), so that the guard covers it -/
theorem nested_unknown_inert_refs_partial (d : Draft) (fc : Option FormatChecker) (env : Env) (impl : FmtImpl)
    (G : Str → Prop) (hempty : G []) (s s' : Json) (h : Spec.Ins d s s') (st st' : RState)
    (hst : Spec.InsState d st st')
    (hs' : Spec.RefsIn G s') (hcov : Spec.Covered G st') (hworld : Spec.WorldCovered env G)
    (hguard : Spec.Lands d env G st.store st'.store)
    (fuel : Nat) (inst : Json) (b : Option Nat) :
    ((eval env impl (d.cfg fc) fuel inst s' b st').errs.map Spec.eraseDeep
        = (eval env impl (d.cfg fc) fuel inst s b st).errs.map Spec.eraseDeep)
    ∧ (eval env impl (d.cfg fc) fuel inst s' b st').stop = (eval env impl (d.cfg fc) fuel inst s b st).stop
    ∧ Spec.InsState d (eval env impl (d.cfg fc) fuel inst s b st).st (eval env impl (d.cfg fc) fuel inst s' b st').st
    ∧ Spec.Covered G (eval env impl (d.cfg fc) fuel inst s' b st').st
    ∧ Spec.Lands d env G (eval env impl (d.cfg fc) fuel inst s b st).st.store
        (eval env impl (d.cfg fc) fuel inst s' b st').st.store := by
  have hsim := NestedRefs.eval_recRelR d env G hworld hempty impl fc fuel inst s s' ⟨h, hs'⟩ b st st' ⟨hst, hcov, hguard⟩
  exact ⟨hsim.1.symm, hsim.2.1.symm, hsim.2.2.ins, hsim.2.2.cov, hsim.2.2.lands⟩

/-- … with the canonical `G`: the reference strings occurring in `s'`, in the documents the primed
    state holds, and in retrievable documents.  As first given; FALSE for the same reason
    (`nested_unknown_inert_refs_met_counterexample`): `Spec.refsMet` lists string references only. -/
def nested_unknown_inert_refs_met_statement : Prop :=
  ∀ (d : Draft) (fc : Option FormatChecker) (env : Env) (impl : FmtImpl)
    (s s' : Json) (_h : Spec.Ins d s s') (st st' : RState) (_hst : Spec.InsState d st st')
    (_hguard : Spec.Lands d env (Spec.refsMet env s' st') st.store st'.store)
    (fuel : Nat) (inst : Json) (b : Option Nat),
    ((eval env impl (d.cfg fc) fuel inst s' b st').errs.map Spec.eraseDeep
        = (eval env impl (d.cfg fc) fuel inst s b st).errs.map Spec.eraseDeep)
    ∧ (eval env impl (d.cfg fc) fuel inst s' b st').stop = (eval env impl (d.cfg fc) fuel inst s b st).stop
    ∧ Spec.InsState d (eval env impl (d.cfg fc) fuel inst s b st).st (eval env impl (d.cfg fc) fuel inst s' b st').st

/-- … with the canonical `G` and the empty reference: the guard is asked of the reference strings
    that can be met AND of the empty reference -/
theorem nested_unknown_inert_refs_met_partial (d : Draft) (fc : Option FormatChecker) (env : Env) (impl : FmtImpl)
    (s s' : Json) (h : Spec.Ins d s s') (st st' : RState) (hst : Spec.InsState d st st')
    (hguard : Spec.Lands d env (fun r => Spec.refsMet env s' st' r ∨ r = []) st.store st'.store)
    (fuel : Nat) (inst : Json) (b : Option Nat) :
    ((eval env impl (d.cfg fc) fuel inst s' b st').errs.map Spec.eraseDeep
        = (eval env impl (d.cfg fc) fuel inst s b st).errs.map Spec.eraseDeep)
    ∧ (eval env impl (d.cfg fc) fuel inst s' b st').stop = (eval env impl (d.cfg fc) fuel inst s b st).stop
    ∧ Spec.InsState d (eval env impl (d.cfg fc) fuel inst s b st).st (eval env impl (d.cfg fc) fuel inst s' b st').st := by
  have key := nested_unknown_inert_refs_partial d fc env impl (fun r => Spec.refsMet env s' st' r ∨ r = [])
    (.inr rfl) s s' h st st' hst
    (fun r hr => .inl (.inl hr))
    ⟨fun kv hkv r hr => .inl (.inr (.inl ⟨kv, hkv, hr⟩)), fun kv hkv r hr => .inl (.inr (.inr (.inl ⟨kv, hkv, hr⟩)))⟩
    (fun n u doc hf r hr => .inl (.inr (.inr (.inr ⟨n, u, doc, hf, hr⟩))))
    hguard fuel inst b
  exact ⟨key.1, key.2.1, key.2.2.1⟩

/-- … in particular the verdict.  As first given; FALSE for the same reason
    (`nested_unknown_inert_refs_verdict_counterexample`). -/
def nested_unknown_inert_refs_verdict_statement : Prop :=
  ∀ (d : Draft) (fc : Option FormatChecker) (env : Env) (impl : FmtImpl)
    (G : Str → Prop) (s s' : Json) (_h : Spec.Ins d s s') (st st' : RState)
    (_hst : Spec.InsState d st st')
    (_hs' : Spec.RefsIn G s') (_hcov : Spec.Covered G st') (_hworld : Spec.WorldCovered env G)
    (_hguard : Spec.Lands d env G st.store st'.store)
    (fuel : Nat) (inst : Json),
    (isValid (eval env impl (d.cfg fc) fuel inst s') st').1 = (isValid (eval env impl (d.cfg fc) fuel inst s) st).1

theorem nested_unknown_inert_refs_verdict_partial (d : Draft) (fc : Option FormatChecker) (env : Env) (impl : FmtImpl)
    (G : Str → Prop) (hempty : G []) (s s' : Json) (h : Spec.Ins d s s') (st st' : RState)
    (hst : Spec.InsState d st st')
    (hs' : Spec.RefsIn G s') (hcov : Spec.Covered G st') (hworld : Spec.WorldCovered env G)
    (hguard : Spec.Lands d env G st.store st'.store)
    (fuel : Nat) (inst : Json) :
    (isValid (eval env impl (d.cfg fc) fuel inst s') st').1 = (isValid (eval env impl (d.cfg fc) fuel inst s) st).1 := by
  have key := nested_unknown_inert_refs_partial d fc env impl G hempty s s' h st st' hst hs' hcov hworld hguard fuel inst (some 1)
  unfold isValid
  revert key
  generalize eval env impl (d.cfg fc) fuel inst s' (some 1) st' = o'
  generalize eval env impl (d.cfg fc) fuel inst s (some 1) st = o
  rintro ⟨he, hs, _⟩
  obtain ⟨es', stop', st1'⟩ := o'
  obtain ⟨es, stop, st1⟩ := o
  dsimp only at he hs
  subst hs
  cases es' with
  | nil =>
    cases es with
    | nil => cases stop' <;> rfl
    | cons e es => simp at he
  | cons e' es' =>
    cases es with
    | nil => simp at he
    | cons e es => rfl

/-! #### the guard is needed, and the statement is not vacuous

A world with one document, the root schema under the base URI `""`: `urljoin` returns the
reference, `urldefrag` splits at `#`, `urinorm` is the identity, every retrieval fails. -/

namespace Refs
open Spec

def env : Env :=
  ⟨fun _ _ => none, fun _ r => some r,
   fun u => some (u.takeWhile (· != '#'), (u.dropWhile (· != '#')).drop 1),
   fun u => some u, fun _ => none, fun _ => none, fun _ => none,
   fun _ _ => some none, fun _ _ => none⟩

/-- a fresh resolver for the root document `doc` under the base URI `""` -/
def stOf (doc : Json) : RState :=
  { scopes := [[]], store := [([], doc)], memo := [], memoCap := none, cacheRemote := true, clock := 0,
    fetchLog := [] }

theorem world (G : Str → Prop) : WorldCovered env G := fun _ _ _ h => nomatch h

theorem insState_stOf {d : Draft} {doc doc' : Json} (h : Ins d doc doc') : InsState d (stOf doc) (stOf doc') :=
  ⟨rfl, .cons _ _ _ h .nil, .nil, rfl, rfl, rfl, rfl⟩

theorem covered_stOf {G : Str → Prop} {doc' : Json} (h : RefsIn G doc') : Covered G (stOf doc') where
  store := fun kv hkv => by
    cases hkv with
    | head => exact h
    | tail _ h' => cases h'
  memo := fun _ h' => nomatch h'

/-! the counterexample: `{"properties": {"a": {"$ref": "#/x-foo"}}}` and the same schema with the
    root member `"x-foo": {"type": "string"}` inserted.  The reference leads INTO the inserted member:
    the unprimed run ends with `RefResolutionError`, the primed run reports a `type` error. -/

def cexS : Json :=
  .obj [(k "properties", .obj [(k "a", .obj [(k "$ref", .str (k "#/x-foo"))])])]

def cexS' : Json :=
  .obj [(k "x-foo", .obj [(k "type", .str (k "string"))]),
        (k "properties", .obj [(k "a", .obj [(k "$ref", .str (k "#/x-foo"))])])]

theorem xfoo_inert : Inert .d7 (k "x-foo") := by
  unfold Inert; decide +kernel

theorem cex_ins : Ins .d7 cexS cexS' :=
  .obj <| .insert (k "x-foo") _ xfoo_inert <| .keep (k "properties") _ _ (.same _ _) .nil

def cexInst : Json := .obj [(k "a", .num (.int 1))]

theorem cex_refs : RefsIn (fun r => r = k "#/x-foo") cexS' := by
  have : refsOf cexS' = [k "#/x-foo"] := by decide +kernel
  intro r hr
  rw [this] at hr
  exact List.mem_singleton.1 hr

theorem cex_differ :
    (eval env RefCex.impl (Draft.d7.cfg none) 3 cexInst cexS' none (stOf cexS')).stop.isDone
      ≠ (eval env RefCex.impl (Draft.d7.cfg none) 3 cexInst cexS none (stOf cexS)).stop.isDone := by
  decide +kernel

end Refs

/-- **the guard cannot be dropped**: with every hypothesis of `nested_unknown_inert_refs` except
    `hguard`, already the way of stopping may differ (a reference into an inserted member) -/
theorem nested_unknown_inert_refs_needs_guard :
    ¬ (∀ (d : Draft) (fc : Option FormatChecker) (env : Env) (impl : FmtImpl)
        (G : Str → Prop) (s s' : Json) (_h : Spec.Ins d s s') (st st' : RState)
        (_hst : Spec.InsState d st st')
        (_hs' : Spec.RefsIn G s') (_hcov : Spec.Covered G st') (_hworld : Spec.WorldCovered env G)
        (fuel : Nat) (inst : Json) (b : Option Nat),
        (eval env impl (d.cfg fc) fuel inst s' b st').stop = (eval env impl (d.cfg fc) fuel inst s b st).stop) := by
  intro hall
  have := hall .d7 none Refs.env RefCex.impl (fun r => r = Spec.k "#/x-foo") Refs.cexS Refs.cexS' Refs.cex_ins
    (Refs.stOf Refs.cexS) (Refs.stOf Refs.cexS') (Refs.insState_stOf Refs.cex_ins) Refs.cex_refs
    (Refs.covered_stOf Refs.cex_refs) (Refs.world _) 3 Refs.cexInst none
  exact Refs.cex_differ (congrArg Stop.isDone this)

/-- … nor from `nested_unknown_inert_refs_partial`: the same runs, `G` being every string -/
theorem nested_unknown_inert_refs_partial_needs_guard :
    ¬ (∀ (d : Draft) (fc : Option FormatChecker) (env : Env) (impl : FmtImpl)
        (G : Str → Prop) (_hempty : G []) (s s' : Json) (_h : Spec.Ins d s s') (st st' : RState)
        (_hst : Spec.InsState d st st')
        (_hs' : Spec.RefsIn G s') (_hcov : Spec.Covered G st') (_hworld : Spec.WorldCovered env G)
        (fuel : Nat) (inst : Json) (b : Option Nat),
        (eval env impl (d.cfg fc) fuel inst s' b st').stop = (eval env impl (d.cfg fc) fuel inst s b st).stop) := by
  intro hall
  have := hall .d7 none Refs.env RefCex.impl (fun _ => True) trivial Refs.cexS Refs.cexS' Refs.cex_ins
    (Refs.stOf Refs.cexS) (Refs.stOf Refs.cexS') (Refs.insState_stOf Refs.cex_ins) (fun _ _ => trivial)
    (Refs.covered_stOf (fun _ _ => trivial)) (Refs.world _) 3 Refs.cexInst none
  exact Refs.cex_differ (congrArg Stop.isDone this)

/-! A weaker guard — "no run ends with `RefResolutionError`" (every reference resolves, on both
    sides) — is NOT enough: a pointer may stop at a position that is not a schema position of the
    insertion.  `{"properties": {"const": {}}, "allOf": [{"$ref": "#/properties"}]}` and the same schema
    with `"x-foo": 1` inserted into the property subschema named `const`: the reference makes the
    `properties` MAP a schema, whose keyword `const` has the (modified) property subschema as its
    value.  `{}` is valid for the first schema and violates `const` in the second. -/

namespace Refs
open Spec

def roleS : Json :=
  .obj [(k "properties", .obj [(k "const", .obj [])]),
        (k "allOf", .arr [.obj [(k "$ref", .str (k "#/properties"))]])]

def roleS' : Json :=
  .obj [(k "properties", .obj [(k "const", .obj [(k "x-foo", .num (.int 1))])]),
        (k "allOf", .arr [.obj [(k "$ref", .str (k "#/properties"))]])]

theorem role_ins : Ins .d7 roleS roleS' :=
  .obj <|
    .keep (k "properties") _ _
      (.schemaMap _ _ _ (by decide +kernel) <|
        .cons (k "const") _ _ (.obj <| .insert (k "x-foo") _ xfoo_inert .nil) .nil) <|
    .keep (k "allOf") _ _ (.same _ _) .nil

theorem role_refs : RefsIn (fun r => r = k "#/properties") roleS' := by
  have : refsOf roleS' = [k "#/properties"] := by decide +kernel
  intro r hr
  rw [this] at hr
  exact List.mem_singleton.1 hr

theorem role_runs :
    (eval env RefCex.impl (Draft.d7.cfg none) 4 (.obj []) roleS none (stOf roleS)).stop.isDone = true
    ∧ (eval env RefCex.impl (Draft.d7.cfg none) 4 (.obj []) roleS' none (stOf roleS')).stop.isDone = true
    ∧ (eval env RefCex.impl (Draft.d7.cfg none) 4 (.obj []) roleS none (stOf roleS)).errs.length = 0
    ∧ (eval env RefCex.impl (Draft.d7.cfg none) 4 (.obj []) roleS' none (stOf roleS')).errs.length = 1 := by
  decide +kernel

end Refs

/-- "every reference resolves, in both runs" does not make insertions inert: the position a
    reference lands on must be one that the insertion relates as a SCHEMA (`Spec.Lands`) -/
theorem nested_unknown_inert_refs_resolving_not_enough :
    ¬ (∀ (d : Draft) (fc : Option FormatChecker) (env : Env) (impl : FmtImpl)
        (G : Str → Prop) (s s' : Json) (_h : Spec.Ins d s s') (st st' : RState)
        (_hst : Spec.InsState d st st')
        (_hs' : Spec.RefsIn G s') (_hcov : Spec.Covered G st') (_hworld : Spec.WorldCovered env G)
        (fuel : Nat) (inst : Json) (b : Option Nat),
        (eval env impl (d.cfg fc) fuel inst s b st).stop.isDone = true →
        (eval env impl (d.cfg fc) fuel inst s' b st').stop.isDone = true →
        (eval env impl (d.cfg fc) fuel inst s' b st').errs.length = (eval env impl (d.cfg fc) fuel inst s b st).errs.length) := by
  intro hall
  have := hall .d7 none Refs.env RefCex.impl (fun r => r = Spec.k "#/properties") Refs.roleS Refs.roleS' Refs.role_ins
    (Refs.stOf Refs.roleS) (Refs.stOf Refs.roleS') (Refs.insState_stOf Refs.role_ins) Refs.role_refs
    (Refs.covered_stOf Refs.role_refs) (Refs.world _) 4 (.obj []) none Refs.role_runs.1 Refs.role_runs.2.1
  rw [Refs.role_runs.2.2.1, Refs.role_runs.2.2.2] at this
  cases this

/-! the statement is not vacuous: Draft 7,
    `{"definitions": {"pos": {"type": "integer", "minimum": 0}}, "properties": {"n": {"$ref": "#/definitions/pos"}}}`
    and the same schema with three foreign keys inserted: the Draft 3/4 spelling `id` of the id keyword
    and `x-note` at the top, `x-note` next to the `$ref`. -/

namespace Refs
open Spec

def pos : Json := .obj [(k "type", .str (k "integer")), (k "minimum", .num (.int 0))]

def nvS : Json :=
  .obj [(k "definitions", .obj [(k "pos", pos)]),
        (k "properties", .obj [(k "n", .obj [(k "$ref", .str (k "#/definitions/pos"))])])]

def nvS' : Json :=
  .obj [(k "id", .str (k "urn:elsewhere")), (k "definitions", .obj [(k "pos", pos)]), (k "x-note", .num (.int 1)),
        (k "properties", .obj [(k "n", .obj [(k "$ref", .str (k "#/definitions/pos")), (k "x-note", .bool true)])])]

theorem id_inert_d7 : Inert .d7 (k "id") := by
  unfold Inert; decide +kernel

theorem nv_ins : Ins .d7 nvS nvS' :=
  .obj <|
    .insert (k "id") _ id_inert_d7 <|
    .keep (k "definitions") _ _ (.same _ _) <|
    .insert (k "x-note") _ NonVacuous.xnote_inert <|
    .keep (k "properties") _ _
      (.schemaMap _ _ _ (by decide +kernel) <|
        .cons (k "n") _ _
          (.obj <| .keep (k "$ref") _ _ (.same _ _) <| .insert (k "x-note") _ NonVacuous.xnote_inert .nil)
          .nil)
      .nil

/-- the reference strings that can be met, and the empty reference (which lands on the whole
    document) -/
def nvG (r : Str) : Prop := r = k "#/definitions/pos" ∨ r = []

theorem nv_refs : RefsIn nvG nvS' := by
  have : refsOf nvS' = [k "#/definitions/pos"] := by decide +kernel
  intro r hr
  rw [this] at hr
  exact .inl (List.mem_singleton.1 hr)

/-- the one reference lands, in both documents, on the same definition -/
theorem nv_lands : Lands .d7 env nvG (stOf nvS).store (stOf nvS').store := by
  intro r hr scope url u frag key doc doc' hj hdf hn hl hl'
  rcases hr with hr | hr
  swap
  · subst hr
    cases hj
    have e : env.urldefrag [] = some ([], []) := by decide +kernel
    rw [e] at hdf
    cases hdf
    cases hn
    have e1 : Json.lookup [] (stOf nvS).store = some nvS := rfl
    have e2 : Json.lookup [] (stOf nvS').store = some nvS' := rfl
    rw [e1] at hl
    rw [e2] at hl'
    cases hl
    cases hl'
    have f1 : resolveFragment nvS [] = some nvS := by decide +kernel
    have f2 : resolveFragment nvS' [] = some nvS' := by decide +kernel
    rw [f1, f2]
    exact nv_ins
  cases hr
  cases hj
  have e : env.urldefrag (k "#/definitions/pos") = some ([], k "/definitions/pos") := by decide +kernel
  rw [e] at hdf
  cases hdf
  cases hn
  have e1 : Json.lookup [] (stOf nvS).store = some nvS := rfl
  have e2 : Json.lookup [] (stOf nvS').store = some nvS' := rfl
  rw [e1] at hl
  rw [e2] at hl'
  cases hl
  cases hl'
  have f1 : resolveFragment nvS (k "/definitions/pos") = some pos := by decide +kernel
  have f2 : resolveFragment nvS' (k "/definitions/pos") = some pos := by decide +kernel
  rw [f1, f2]
  exact Ins.same _

example : nvS ≠ nvS' := by decide +kernel

/-- all hypotheses hold: the two schemas evaluate alike on every instance -/
example (fc : Option FormatChecker) (impl : FmtImpl) (fuel : Nat) (inst : Json) (b : Option Nat) :
    ((eval env impl (Draft.d7.cfg fc) fuel inst nvS' b (stOf nvS')).errs.map eraseDeep
        = (eval env impl (Draft.d7.cfg fc) fuel inst nvS b (stOf nvS)).errs.map eraseDeep)
    ∧ (eval env impl (Draft.d7.cfg fc) fuel inst nvS' b (stOf nvS')).stop
        = (eval env impl (Draft.d7.cfg fc) fuel inst nvS b (stOf nvS)).stop :=
  have key := nested_unknown_inert_refs_partial .d7 fc env impl nvG (.inr rfl) nvS nvS' nv_ins (stOf nvS) (stOf nvS')
    (insState_stOf nv_ins) nv_refs (covered_stOf nv_refs) (world _) nv_lands fuel inst b
  ⟨key.1, key.2.1⟩

/-- and the reference is followed: `{"n": -1}` violates `minimum` of the referenced definition, on
    both sides (one error each); `{"n": 1}` is valid -/
example :
    (eval env RefCex.impl (Draft.d7.cfg none) 4 (.obj [(k "n", .num (.int (-1)))]) nvS none (stOf nvS)).errs.length = 1
    ∧ (eval env RefCex.impl (Draft.d7.cfg none) 4 (.obj [(k "n", .num (.int (-1)))]) nvS' none (stOf nvS')).errs.length = 1
    ∧ (eval env RefCex.impl (Draft.d7.cfg none) 4 (.obj [(k "n", .num (.int 1))]) nvS' none (stOf nvS')).errs.length = 0
    ∧ (eval env RefCex.impl (Draft.d7.cfg none) 4 (.obj [(k "n", .num (.int 1))]) nvS' none (stOf nvS')).stop.isDone = true := by
  decide +kernel

end Refs

/-! #### a `$ref` with a falsy scalar value is followed, as the empty reference

Draft 4 (whose metaschema does not describe `$ref`), a world with one document under the base URI
`""` in which `urljoin` returns the base for the empty reference and the reference otherwise:
`{"id": "#/x-foo", "properties": {"a": {"$ref": 0}}}` and the same schema with the root member
`"x-foo": {"type": "string"}` inserted.  No `$ref` member has a string value — `Spec.refsOf` is empty, every
`G` covers it, the guard holds vacuously for the empty `G` — but `{"$ref": 0}` is followed as the
empty reference (the base URI in effect, `#/x-foo`, is non-empty): it resolves to that base, that is
INTO the inserted member.
The unprimed run ends with `RefResolutionError`, the primed run validates against `{"type": "string"}`. -/

namespace Refs
open Spec

/-- `Refs.env` with an `urljoin` that returns the base for the empty reference -/
def envJ : Env := { env with urljoin := fun base r => some (if r.isEmpty then base else r) }

def falsyS : Json :=
  .obj [(k "id", .str (k "#/x-foo")), (k "properties", .obj [(k "a", .obj [(k "$ref", .num (.int 0))])])]

def falsyS' : Json :=
  .obj [(k "x-foo", .obj [(k "type", .str (k "string"))]),
        (k "id", .str (k "#/x-foo")), (k "properties", .obj [(k "a", .obj [(k "$ref", .num (.int 0))])])]

theorem xfoo_inert4 : Inert .d4 (k "x-foo") := by
  unfold Inert; decide +kernel

theorem falsy_ins : Ins .d4 falsyS falsyS' :=
  .obj <| .insert (k "x-foo") _ xfoo_inert4 <| .keep (k "id") _ _ (.same _ _) <|
    .keep (k "properties") _ _ (.same _ _) .nil

theorem falsy_refsOf : refsOf falsyS' = [] := by decide +kernel

theorem falsy_refs (G : Str → Prop) : RefsIn G falsyS' := by
  intro r hr
  rw [falsy_refsOf] at hr
  cases hr

theorem worldJ (G : Str → Prop) : WorldCovered envJ G := fun _ _ _ h => nomatch h

/-- `{"a": "s"}` -/
def falsyInst : Json := .obj [(k "a", .str (k "s"))]

theorem falsy_differ :
    (eval envJ RefCex.impl (Draft.d4.cfg none) 3 falsyInst falsyS' none (stOf falsyS')).stop.isDone
      ≠ (eval envJ RefCex.impl (Draft.d4.cfg none) 3 falsyInst falsyS none (stOf falsyS)).stop.isDone := by
  decide +kernel

/-- `is_valid` answered `True` -/
def saidValid : Outcome Bool → Bool
  | .ok true => true
  | _ => false

theorem falsy_verdict_differ :
    saidValid (isValid (eval envJ RefCex.impl (Draft.d4.cfg none) 3 falsyInst falsyS') (stOf falsyS')).1
      ≠ saidValid (isValid (eval envJ RefCex.impl (Draft.d4.cfg none) 3 falsyInst falsyS) (stOf falsyS)).1 := by
  decide +kernel

/-- no string reference can be met -/
theorem falsy_refsMet (r : Str) : ¬ refsMet envJ falsyS' (stOf falsyS') r := by
  rintro (h | ⟨kv, hkv, h⟩ | ⟨kv, hkv, h⟩ | ⟨_, _, _, hf, _⟩)
  · rw [falsy_refsOf] at h; cases h
  · cases hkv with
    | head => rw [falsy_refsOf] at h; cases h
    | tail _ h' => cases h'
  · cases hkv
  · exact nomatch hf

end Refs

theorem nested_unknown_inert_refs_counterexample : ¬ nested_unknown_inert_refs_statement := by
  intro hall
  have := (hall .d4 none Refs.envJ RefCex.impl (fun _ => False) Refs.falsyS Refs.falsyS' Refs.falsy_ins
    (Refs.stOf Refs.falsyS) (Refs.stOf Refs.falsyS') (Refs.insState_stOf Refs.falsy_ins) (Refs.falsy_refs _)
    (Refs.covered_stOf (Refs.falsy_refs _)) (Refs.worldJ _) (fun _ hr => hr.elim) 3 Refs.falsyInst none).2.1
  exact Refs.falsy_differ (congrArg Stop.isDone this)

theorem nested_unknown_inert_refs_met_counterexample : ¬ nested_unknown_inert_refs_met_statement := by
  intro hall
  have := (hall .d4 none Refs.envJ RefCex.impl Refs.falsyS Refs.falsyS' Refs.falsy_ins
    (Refs.stOf Refs.falsyS) (Refs.stOf Refs.falsyS') (Refs.insState_stOf Refs.falsy_ins)
    (fun r hr => (Refs.falsy_refsMet r hr).elim) 3 Refs.falsyInst none).2.1
  exact Refs.falsy_differ (congrArg Stop.isDone this)

theorem nested_unknown_inert_refs_verdict_counterexample : ¬ nested_unknown_inert_refs_verdict_statement := by
  intro hall
  have := hall .d4 none Refs.envJ RefCex.impl (fun _ => False) Refs.falsyS Refs.falsyS' Refs.falsy_ins
    (Refs.stOf Refs.falsyS) (Refs.stOf Refs.falsyS') (Refs.insState_stOf Refs.falsy_ins) (Refs.falsy_refs _)
    (Refs.covered_stOf (Refs.falsy_refs _)) (Refs.worldJ _) (fun _ hr => hr.elim) 3 Refs.falsyInst
  exact Refs.falsy_verdict_differ (congrArg Refs.saidValid this)

/-! #### a way to establish the guard: pointer navigation commutes with insertion

Insertion only adds members and leaves array positions alone, so every fragment that resolves in
the unprimed document resolves in the primed one, to the value at the corresponding position
(`Spec.PosRel`: a schema with insertions, an array of such, or a map of such) — provided the primed
document has no duplicate keys (which Python dicts never have, but the model's association lists
may: an inserted member could shadow a kept foreign member of the same name).  When the position
reached is a schema position (`Spec.PosRel.ins`, e.g. anything under a `definitions` member, which
insertion leaves alone, or a subschema proper), this is what `Spec.Lands` asks for. -/

theorem pointer_commutes_with_insertion (d : Draft) (doc doc' : Json) (h : Spec.Ins d doc doc')
    (hnd : Spec.NoDupKeys doc') (frag : Str) (t : Json) (hr : resolveFragment doc frag = some t) :
    ∃ t', resolveFragment doc' frag = some t' ∧ Spec.PosRel d t t' :=
  NestedRefs.resolveFragment_posRel h hnd frag hr

/-- … hence the guard's requirement for a fragment that resolves in the unprimed document to a
    position that insertion relates as a schema -/
theorem landRel_of_resolves (d : Draft) (doc doc' : Json) (h : Spec.Ins d doc doc')
    (hnd : Spec.NoDupKeys doc') (frag : Str) (t : Json) (hr : resolveFragment doc frag = some t)
    (hrole : ∀ t', Spec.PosRel d t t' → Spec.Ins d t t') :
    Spec.LandRel d (resolveFragment doc frag) (resolveFragment doc' frag) := by
  obtain ⟨t', hr', hp⟩ := pointer_commutes_with_insertion d doc doc' h hnd frag t hr
  rw [hr, hr']
  exact hrole t' hp

/-- without the no-duplicate-keys hypothesis an inserted member can shadow a kept foreign member:
    `{"x-foo": false}` and `{"x-foo": true, "x-foo": false}` -/
example :
    Spec.Ins .d7 (.obj [(Spec.k "x-foo", .bool false)]) (.obj [(Spec.k "x-foo", .bool true), (Spec.k "x-foo", .bool false)])
    ∧ resolveFragment (.obj [(Spec.k "x-foo", .bool false)]) (Spec.k "/x-foo") = some (.bool false)
    ∧ resolveFragment (.obj [(Spec.k "x-foo", .bool true), (Spec.k "x-foo", .bool false)]) (Spec.k "/x-foo")
        = some (.bool true) :=
  ⟨.obj (.insert _ _ Refs.xfoo_inert (.keep _ _ _ (.same _ _) .nil)), by decide +kernel, by decide +kernel⟩

end JS.Props.C10
