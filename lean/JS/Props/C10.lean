/-
  C10 — unknown, annotation and other-draft keywords never affect validation.
  Property theorems only; helper lemmas live in JS/Proofs/Inert.lean.
  The keyword tables, type tables and id keys are REGENERATED from the Python source on every run
  (JS/Generated/Tables.lean), so the table theorems are re-checked against what the code says now.
-/
import JS.Proofs.Inert
import JS.Proofs.InertNested
namespace JS.Props.C10
open JS

/-- each draft's keyword table is exactly its vocabulary, every keyword bound to the function
    the draft prescribes (a permutation: the order of the Python dict is irrelevant) -/
theorem table_exact (d : Draft) : (d.keywords.isPerm (Spec.expected d)) = true := by
  cases d <;> decide +kernel

theorem types_exact (d : Draft) : (d.types.isPerm (Spec.expectedTypes d)) = true := by
  cases d <;> decide +kernel

/-- `id` establishes a base URI only in drafts 3/4, `$id` only in drafts 6/7 -/
theorem id_key (d : Draft) : d.idKey = Spec.expectedIdKey d := by
  cases d <;> rfl

/-- consequently: the keywords of other drafts and of later specifications are unknown to a draft -/
theorem other_draft_keywords_unknown :
    (∀ kw ∈ ["const", "contains", "propertyNames", "if", "then", "else", "extends", "disallow", "divisibleBy",
              "$id", "$defs", "unevaluatedProperties", "prefixItems", "dependentRequired", "title", "description",
              "default", "examples", "$comment", "definitions"], lookupS (Spec.k kw) (Draft.d4).keywords = none)
    ∧ (∀ kw ∈ ["extends", "disallow", "divisibleBy", "id", "if", "then", "else", "$defs", "unevaluatedItems",
              "title", "description", "default", "examples", "$comment", "definitions"], lookupS (Spec.k kw) (Draft.d6).keywords = none)
    ∧ (∀ kw ∈ ["extends", "disallow", "divisibleBy", "id", "then", "else", "$defs", "$anchor", "$recursiveRef",
              "title", "description", "default", "examples", "$comment", "definitions"], lookupS (Spec.k kw) (Draft.d7).keywords = none)
    ∧ (∀ kw ∈ ["allOf", "anyOf", "oneOf", "not", "const", "contains", "propertyNames", "if", "multipleOf", "required",
              "minProperties", "maxProperties", "$id", "title", "description", "default"], lookupS (Spec.k kw) (Draft.d3).keywords = none) := by
  decide +kernel

/-- what inserting a key into the enclosing schema necessarily changes in an error: the recorded
    enclosing schema itself (and nothing else) -/
def eraseSchema : Err → Err
  | .mk m info p sp ctx c => .mk m (info.map fun i => { i with schema := .null }) p sp ctx c

/-- `eraseSchema` is the `eraseSch` of JS/Proofs/Inert.lean -/
theorem eraseSchema_eq : eraseSchema = eraseSch := by
  funext e; cases e; rfl

/-- **Unknown keywords are inert.** For any validator class, inserting a key that is not in its
    keyword table, is not its id key, is not `$ref` and is not one of the sibling names keyword
    functions consult, anywhere among the keys of a schema object, leaves the errors (up to the
    recorded enclosing schema), the stop reason and the resolver state unchanged — for every value
    of the key, every instance, budget and state, and every behaviour `rec` of the subschemas. -/
theorem unknown_inert (env : Env) (impl : FmtImpl) (cfg : Cfg) (rec : Rec)
    (pre post : List (Str × Json)) (key : Str) (v inst : Json) (b : Option Nat) (st : RState)
    (hk : lookupS key cfg.keywords = none) (hid : key ≠ cfg.idKey) (href : key ≠ skey "$ref")
    (hc : key ∉ Spec.consulted) :
    ((evalStep env impl cfg rec inst (.obj (pre ++ (key, v) :: post)) b st).errs.map eraseSchema
        = (evalStep env impl cfg rec inst (.obj (pre ++ post)) b st).errs.map eraseSchema)
    ∧ (evalStep env impl cfg rec inst (.obj (pre ++ (key, v) :: post)) b st).stop
        = (evalStep env impl cfg rec inst (.obj (pre ++ post)) b st).stop
    ∧ (evalStep env impl cfg rec inst (.obj (pre ++ (key, v) :: post)) b st).st
        = (evalStep env impl cfg rec inst (.obj (pre ++ post)) b st).st := by
  rw [eraseSchema_eq]
  exact evalStep_unknown_sim env impl cfg rec pre post key v inst hk hid href hc b st

/-- **Keywords next to `$ref` are ignored**: with a (non-null) `$ref` present, any other key — the
    class's id key included — can be inserted without effect.

    FALSE as stated for arbitrary validator classes (`ref_siblings_inert_counterexample`): `cfg` may
    bind `$ref` to a keyword function that reads sibling keywords.  It holds when the function bound
    to `$ref` reads no siblings, or the inserted key is not a consulted name
    (`ref_siblings_inert_partial`), in particular for the four drafts (`ref_siblings_inert_drafts`). -/
def ref_siblings_inert_statement : Prop :=
    ∀ (env : Env) (impl : FmtImpl) (cfg : Cfg) (rec : Rec)
    (pre post : List (Str × Json)) (key : Str) (v ref inst : Json) (b : Option Nat) (st : RState)
    (_hkey : key ≠ skey "$ref")
    (_href : Json.lookup (skey "$ref") (pre ++ post) = some ref) (_hnn : ref ≠ .null),
    ((evalStep env impl cfg rec inst (.obj (pre ++ (key, v) :: post)) b st).errs.map eraseSchema
        = (evalStep env impl cfg rec inst (.obj (pre ++ post)) b st).errs.map eraseSchema)
    ∧ (evalStep env impl cfg rec inst (.obj (pre ++ (key, v) :: post)) b st).stop
        = (evalStep env impl cfg rec inst (.obj (pre ++ post)) b st).stop
    ∧ (evalStep env impl cfg rec inst (.obj (pre ++ (key, v) :: post)) b st).st
        = (evalStep env impl cfg rec inst (.obj (pre ++ post)) b st).st

/-- the statement with the missing hypothesis made explicit: the function the class binds to
    `$ref` (if any) reads no sibling keywords — or the inserted key is not a consulted name -/
theorem ref_siblings_inert_partial (env : Env) (impl : FmtImpl) (cfg : Cfg) (rec : Rec)
    (pre post : List (Str × Json)) (key : Str) (v ref inst : Json) (b : Option Nat) (st : RState)
    (hkey : key ≠ skey "$ref")
    (href : Json.lookup (skey "$ref") (pre ++ post) = some ref) (hnn : ref ≠ .null)
    (hfn : (∀ f, lookupS (skey "$ref") cfg.keywords = some f → f.readsSiblings = false)
            ∨ key ∉ Spec.consulted) :
    ((evalStep env impl cfg rec inst (.obj (pre ++ (key, v) :: post)) b st).errs.map eraseSchema
        = (evalStep env impl cfg rec inst (.obj (pre ++ post)) b st).errs.map eraseSchema)
    ∧ (evalStep env impl cfg rec inst (.obj (pre ++ (key, v) :: post)) b st).stop
        = (evalStep env impl cfg rec inst (.obj (pre ++ post)) b st).stop
    ∧ (evalStep env impl cfg rec inst (.obj (pre ++ (key, v) :: post)) b st).st
        = (evalStep env impl cfg rec inst (.obj (pre ++ post)) b st).st := by
  rw [eraseSchema_eq]
  exact evalStep_refSibling_sim env impl cfg rec pre post key v ref inst hkey href hnn hfn b st

/-- the original statement for the classes of the four drafts (with any format checker) -/
theorem ref_siblings_inert_drafts (d : Draft) (fc : Option FormatChecker) (env : Env) (impl : FmtImpl) (rec : Rec)
    (pre post : List (Str × Json)) (key : Str) (v ref inst : Json) (b : Option Nat) (st : RState)
    (hkey : key ≠ skey "$ref")
    (href : Json.lookup (skey "$ref") (pre ++ post) = some ref) (hnn : ref ≠ .null) :
    ((evalStep env impl (d.cfg fc) rec inst (.obj (pre ++ (key, v) :: post)) b st).errs.map eraseSchema
        = (evalStep env impl (d.cfg fc) rec inst (.obj (pre ++ post)) b st).errs.map eraseSchema)
    ∧ (evalStep env impl (d.cfg fc) rec inst (.obj (pre ++ (key, v) :: post)) b st).stop
        = (evalStep env impl (d.cfg fc) rec inst (.obj (pre ++ post)) b st).stop
    ∧ (evalStep env impl (d.cfg fc) rec inst (.obj (pre ++ (key, v) :: post)) b st).st
        = (evalStep env impl (d.cfg fc) rec inst (.obj (pre ++ post)) b st).st :=
  ref_siblings_inert_partial env impl (d.cfg fc) rec pre post key v ref inst b st hkey href hnn
    (.inl fun f hf => by
      have h : some f = some KwFn.ref := hf.symm.trans (draft_ref_bound d)
      cases h; rfl)

/-- **An id next to `$ref` is ignored** (the repaired defect): in each of the four drafts, with a
    (non-null) `$ref` present, inserting the draft's id key with ANY value, anywhere among the keys,
    leaves the errors (up to the recorded enclosing schema), the stop reason and the resolver state
    unchanged — in particular it establishes no base URI for the reference. -/
theorem id_next_to_ref_inert (d : Draft) (fc : Option FormatChecker) (env : Env) (impl : FmtImpl) (rec : Rec)
    (pre post : List (Str × Json)) (v ref inst : Json) (b : Option Nat) (st : RState)
    (href : Json.lookup (skey "$ref") (pre ++ post) = some ref) (hnn : ref ≠ .null) :
    ((evalStep env impl (d.cfg fc) rec inst (.obj (pre ++ (d.idKey, v) :: post)) b st).errs.map eraseSchema
        = (evalStep env impl (d.cfg fc) rec inst (.obj (pre ++ post)) b st).errs.map eraseSchema)
    ∧ (evalStep env impl (d.cfg fc) rec inst (.obj (pre ++ (d.idKey, v) :: post)) b st).stop
        = (evalStep env impl (d.cfg fc) rec inst (.obj (pre ++ post)) b st).stop
    ∧ (evalStep env impl (d.cfg fc) rec inst (.obj (pre ++ (d.idKey, v) :: post)) b st).st
        = (evalStep env impl (d.cfg fc) rec inst (.obj (pre ++ post)) b st).st :=
  ref_siblings_inert_drafts d fc env impl rec pre post d.idKey v ref inst b st
    (by cases d <;> decide +kernel) href hnn

/-- a class binding `$ref` to the draft-3/4 `minimum` function (which reads `exclusiveMinimum`):
    `{"$ref": 5}` accepts `5`, `{"exclusiveMinimum": true, "$ref": 5}` rejects it -/
theorem ref_siblings_inert_counterexample : ¬ ref_siblings_inert_statement := by
  intro h
  have h1 := (h RefCex.env RefCex.impl RefCex.cfg RefCex.rec [] RefCex.post RefCex.key (.bool true)
    RefCex.five RefCex.five none RefCex.st RefCex.hkey RefCex.href RefCex.hnn).1
  have h2 := congrArg List.length h1
  rw [List.length_map, List.length_map] at h2
  exact RefCex.errs_differ h2

/-- the other spelling of the id keyword is inert in each draft -/
theorem other_id_spelling_unknown :
    lookupS (skey "$id") (Draft.d3).keywords = none ∧ lookupS (skey "$id") (Draft.d4).keywords = none
    ∧ lookupS (skey "id") (Draft.d6).keywords = none ∧ lookupS (skey "id") (Draft.d7).keywords = none
    ∧ skey "$id" ≠ (Draft.d3).idKey ∧ skey "$id" ≠ (Draft.d4).idKey
    ∧ skey "id" ≠ (Draft.d6).idKey ∧ skey "id" ≠ (Draft.d7).idKey := by
  decide +kernel

/-! ### Insertion at ANY subschema position, at any depth

`unknown_inert` is about the keys of one schema object, for an arbitrary behaviour of the
subschemas. The property quantifies over insertions at every position of a schema: `Spec.Ins d s s'`
(JS.Spec.Insertion) says that `s'` is `s` with keys foreign to draft `d` (`Spec.Inert`) inserted into
schema objects at any depth — the value of a member being a schema, an array of schemas or a map
of schemas as the draft says, everything else being data that is left alone. For reference-free
`s` the whole evaluation is then unchanged, up to what such insertions necessarily change in an
error: renderings of schema text (messages), the recorded keyword value and enclosing schema
(`Spec.eraseDeep`). Keyword, recorded instance, both paths, causes, the shape of the context tree,
the way of stopping and the resolver state are identical, for every instance, fuel, budget, state
and format checker. -/

theorem nested_unknown_inert (d : Draft) (fc : Option FormatChecker) (env : Env) (impl : FmtImpl)
    (s s' : Json) (h : Spec.Ins d s s') (hnr : Spec.noRef s = true)
    (fuel : Nat) (inst : Json) (b : Option Nat) (st : RState) :
    ((eval env impl (d.cfg fc) fuel inst s' b st).errs.map Spec.eraseDeep
        = (eval env impl (d.cfg fc) fuel inst s b st).errs.map Spec.eraseDeep)
    ∧ (eval env impl (d.cfg fc) fuel inst s' b st).stop = (eval env impl (d.cfg fc) fuel inst s b st).stop
    ∧ (eval env impl (d.cfg fc) fuel inst s' b st).st = (eval env impl (d.cfg fc) fuel inst s b st).st := by
  have hsim := Nested.eval_recRel d env impl fc fuel inst s s' ⟨h, hnr⟩ b st
  exact ⟨hsim.1.symm, hsim.2.1.symm, hsim.2.2.symm⟩

/-- … in particular the verdict -/
theorem nested_unknown_inert_verdict (d : Draft) (fc : Option FormatChecker) (env : Env) (impl : FmtImpl)
    (s s' : Json) (h : Spec.Ins d s s') (hnr : Spec.noRef s = true)
    (fuel : Nat) (inst : Json) (st : RState) :
    (isValid (eval env impl (d.cfg fc) fuel inst s') st).1 = (isValid (eval env impl (d.cfg fc) fuel inst s) st).1 := by
  have key := nested_unknown_inert d fc env impl s s' h hnr fuel inst (some 1) st
  unfold isValid
  revert key
  generalize eval env impl (d.cfg fc) fuel inst s' (some 1) st = o'
  generalize eval env impl (d.cfg fc) fuel inst s (some 1) st = o
  rintro ⟨he, hs, _⟩
  obtain ⟨es', stop', st'⟩ := o'
  obtain ⟨es, stop, st0⟩ := o
  dsimp only at he hs
  subst hs
  cases es' with
  | nil =>
    cases es with
    | nil => cases stop' <;> rfl
    | cons e es => simp at he
  | cons e' es' =>
    cases es with
    | nil => simp at he
    | cons e es => rfl

/-- the later specifications' keywords (2019-09, 2020-12) are inert in every draft modelled here -/
theorem later_keywords_inert (d : Draft) :
    ∀ kw ∈ ["minContains", "maxContains", "unevaluatedItems", "unevaluatedProperties", "dependentRequired",
             "dependentSchemas", "prefixItems", "$anchor", "$recursiveRef", "$recursiveAnchor", "$dynamicRef",
             "$dynamicAnchor", "$defs", "$vocabulary", "contentSchema", "deprecated", "writeOnly",
             "title", "description", "default", "examples", "$comment", "definitions"],
      Spec.Inert d (Spec.k kw) := by
  unfold Spec.Inert
  cases d <;> decide +kernel

/-! ### the nested statement is not vacuous

Draft 7, two levels of nesting: `{"properties": {"a": {"items": {"type": "integer"}}}, "not": {"maxLength": 2}}`
and the same schema with foreign keys inserted at three depths: `x-note` at the top and inside `not`,
`unevaluatedItems` inside the property subschema, `minContains` inside its `items` subschema. -/

namespace NonVacuous
open Spec

def s : Json :=
  .obj [(k "properties", .obj [(k "a", .obj [(k "items", .obj [(k "type", .str (k "integer"))])])]),
        (k "not", .obj [(k "maxLength", .num (.int 2))])]

def s' : Json :=
  .obj [(k "x-note", .num (.int 1)),
        (k "properties", .obj [(k "a", .obj [(k "unevaluatedItems", .bool false),
            (k "items", .obj [(k "type", .str (k "integer")), (k "minContains", .num (.int 3))])])]),
        (k "not", .obj [(k "maxLength", .num (.int 2)), (k "x-note", .str (k "deep"))])]

theorem xnote_inert : Inert .d7 (k "x-note") := by
  unfold Inert; decide +kernel

theorem ins : Ins .d7 s s' :=
  .obj <|
    .insert (k "x-note") _ xnote_inert <|
    .keep (k "properties") _ _
      (.schemaMap _ _ _ (by decide +kernel) <|
        .cons (k "a") _ _
          (.obj <|
            .insert (k "unevaluatedItems") _ (later_keywords_inert .d7 "unevaluatedItems" (by decide)) <|
            .keep (k "items") _ _
              (.schema _ _ _ (by decide +kernel) <| .obj <|
                .keep (k "type") _ _ (.same _ _) <|
                .insert (k "minContains") _ (later_keywords_inert .d7 "minContains" (by decide)) .nil)
              .nil)
          .nil) <|
    .keep (k "not") _ _
      (.schema _ _ _ (by decide +kernel) <| .obj <|
        .keep (k "maxLength") _ _ (.same _ _) <|
        .insert (k "x-note") _ xnote_inert .nil)
      .nil

theorem noRef_s : noRef s = true := by decide +kernel

/-- the two schemas are different, and evaluate alike on every instance, with or without formats -/
example : s ≠ s' := by decide +kernel

example (fc : Option FormatChecker) (env : Env) (impl : FmtImpl) (fuel : Nat) (inst : Json) (b : Option Nat)
    (st : RState) :
    ((eval env impl (Draft.d7.cfg fc) fuel inst s' b st).errs.map eraseDeep
        = (eval env impl (Draft.d7.cfg fc) fuel inst s b st).errs.map eraseDeep)
    ∧ (eval env impl (Draft.d7.cfg fc) fuel inst s' b st).stop = (eval env impl (Draft.d7.cfg fc) fuel inst s b st).stop
    ∧ (eval env impl (Draft.d7.cfg fc) fuel inst s' b st).st = (eval env impl (Draft.d7.cfg fc) fuel inst s b st).st :=
  nested_unknown_inert .d7 fc env impl s s' ins noRef_s fuel inst b st

/-- and the evaluation in question does report errors: `{"a": ["x"]}` violates the nested `type`
    (a string item) and the `not` (an object is no long string) — two errors on both sides, recorded
    with different schemas -/
def inst : Json := .obj [(k "a", .arr [.str (k "x")])]

example :
    (eval RefCex.env RefCex.impl (Draft.d7.cfg none) 5 inst s none RefCex.st).errs.length = 2
    ∧ (eval RefCex.env RefCex.impl (Draft.d7.cfg none) 5 inst s' none RefCex.st).errs.length = 2
    ∧ (eval RefCex.env RefCex.impl (Draft.d7.cfg none) 5 inst s' none RefCex.st).errs.map (·.info.map (·.schema))
        ≠ (eval RefCex.env RefCex.impl (Draft.d7.cfg none) 5 inst s none RefCex.st).errs.map (·.info.map (·.schema)) := by
  decide +kernel

end NonVacuous

end JS.Props.C10
