/-
  C11 — check_schema accepts exactly what the draft's metaschema allows.
  Property theorems only; helper lemmas live in JS/Proofs/CheckSchema.lean.

  Model: `checkSchema` (JS.Module) = the first error of the class's own evaluator running the
  REGENERATED metaschema on the candidate, from a resolver whose store is seeded with the
  registered metaschemas; `metaEnv d` (JS.MetaEnv) = this installation's urllib answers on the URI
  questions that arise (REGENERATED).
  What is proved: check_schema *is* metaschema validation by the class itself and reports its
  first error with all fields; each metaschema is a shaped schema, so C03 applies to it as the
  schema for EVERY candidate as instance: nothing but SchemaError can come out, unless a reference
  of the metaschema designated a non-schema — which the kernel excludes by evaluating every
  reference of every metaschema; each metaschema accepts itself (kernel evaluation).
  "Exactly what the metaschema allows" in the sense of an independent specification with
  references (`Spec.validRN`) is proved at the end: `checkSchema_accepts_iff_spec`,
  `checkSchema_rejects_iff_spec`, for every candidate on which the metaschema run ends normally
  within the fuel. The domain statement `metaDomain_ok` as first given is FALSE
  (`metaDomain_ok_counterexample`: `Spec.numSafe` rejects every bundled metaschema because of the
  PROPERTY named `multipleOf`/`divisibleBy`); `metaDomain_ok_partial` is what holds and suffices.
-/
import JS.Proofs.CheckSchema
import JS.Props.C02
import JS.Proofs.Bridge
import JS.Proofs.TerminateMeta
namespace JS.Props.C11
open JS

/-- check_schema is the class validating the candidate against its own metaschema, first error
    re-typed as SchemaError with every field copied (`create_from`), format checking off -/
theorem checkSchema_is_metaschema_validation (env : Env) (impl : FmtImpl) (g : Globals) (c : ClassDef)
    (fuel : Nat) (s : Json) (st : RState) (hst : freshResolver env g c c.metaSchema = .ok st) :
    checkSchema env impl g c fuel s =
      (match validateM (eval env impl { c.cfg with formatChecker := none } fuel s c.metaSchema) st with
       | (.ok (), _) => .ok
       | (.invalid e, _) => .schemaError e
       | (.raise e, _) => .raise e
       | (.other x, _) => .other x) := by
  exact checkSchema_unfold env impl g c fuel s st hst

/-- … and that first error is the first error `iter_errors` of the metaschema validator yields -/
theorem schemaError_is_first_metaschema_error (env : Env) (impl : FmtImpl) (g : Globals) (c : ClassDef)
    (fuel : Nat) (s : Json) (st : RState) (e : Err) (hst : freshResolver env g c c.metaSchema = .ok st)
    (h : checkSchema env impl g c fuel s = .schemaError e) :
    (eval env impl { c.cfg with formatChecker := none } fuel s c.metaSchema none st).errs.head? = some e := by
  exact schemaError_head env impl g c fuel s st e hst h

/-- accepted ⇔ the metaschema validator yields no error and ends normally -/
theorem accepts_iff_no_error (env : Env) (impl : FmtImpl) (g : Globals) (c : ClassDef)
    (fuel : Nat) (s : Json) (st : RState) (hst : freshResolver env g c c.metaSchema = .ok st) :
    checkSchema env impl g c fuel s = .ok ↔
      ((eval env impl { c.cfg with formatChecker := none } fuel s c.metaSchema none st).errs = []
        ∧ (eval env impl { c.cfg with formatChecker := none } fuel s c.metaSchema none st).stop = .done) := by
  exact accepts_iff env impl g c fuel s st hst

/-- every bundled metaschema has the shape its own draft prescribes (so the evaluator's
    no-crash theorems apply with the metaschema as schema and ANY candidate as instance) -/
theorem meta_shaped (d : Draft) : Spec.shapedR d d.metaSchema = true := by
  cases d
  · exact meta_shaped_d3
  · exact meta_shaped_d4
  · exact meta_shaped_d6
  · exact meta_shaped_d7

/-- the `$ref` strings occurring in a metaschema -/
def refsOf : Json → List Str
  | .arr xs => refsOfList xs
  | .obj kvs => refsOfKvs kvs
  | _ => []
where
  refsOfList : List Json → List Str
    | [] => []
    | x :: xs => refsOf x ++ refsOfList xs
  refsOfKvs : List (Str × Json) → List Str
    | [] => []
    | (k, v) :: rest => (if k = skey "$ref" then (match v with | .str r => [r] | _ => []) else []) ++ refsOf v ++ refsOfKvs rest

/-- the resolver state `check_schema` starts from, under this installation's urllib -/
def metaState (d : Draft) : Option RState :=
  match freshResolver (metaEnv d) Globals.initial d.classDef d.metaSchema with
  | .ok st => some st
  | _ => none

/-- **every reference of every bundled metaschema designates a schema**: from the initial scope and
    from every scope a reference of the metaschema leads to, each `$ref` string of the metaschema
    resolves — locally, without retrieval — to a shaped schema (kernel evaluation over the
    regenerated metaschemas and URI tables) -/
theorem meta_refs_designate_schemas (d : Draft) :
    ∃ st, metaState d = some st ∧
      ∀ top ∈ (d.urljoinTable.map (·.1.1)).eraseDups, ∀ r ∈ (refsOf d.metaSchema).eraseDups,
        match resolve (metaEnv d) r { st with scopes := [top] } with
        | (.ok (_, target), st') => Spec.shapedR d target = true ∧ st'.fetchLog = []
        | _ => False := by
  cases d
  · exact refsOk_sound (env := metaEnv .d3) (d := .d3) (o := metaState .d3) (by decide +kernel)
  · exact refsOk_sound (env := metaEnv .d4) (d := .d4) (o := metaState .d4) (by decide +kernel)
  · exact refsOk_sound (env := metaEnv .d6) (d := .d6) (o := metaState .d6) (by decide +kernel)
  · exact refsOk_sound (env := metaEnv .d7) (d := .d7) (o := metaState .d7) (by decide +kernel)

/-- **each bundled metaschema is accepted by its own class** (kernel evaluation of the whole
    check under the regenerated URI answers) -/
theorem meta_self_accept (d : Draft) :
    checkSchema (metaEnv d) ⟨fun _ _ => none⟩ Globals.initial d.classDef 64 d.metaSchema = .ok := by
  exact selfCheck_ok d

/-- **nothing but SchemaError**: for every candidate, check_schema of a draft returns normally,
    raises SchemaError, or stops in one of the benign ways of C03 (out of fuel; an oracle miss;
    `RefResolutionError`; in Draft 3 `UnknownType`) — never an undocumented exception — unless the
    guarded evaluator's marker shows that a reference designated a non-schema (excluded for the
    bundled metaschemas by `meta_refs_designate_schemas`) -/
theorem checkSchema_never_crashes (env : Env) (hre : Props.C03.RegexOk env) (hso : Spec.SetOrderOk env)
    (impl : FmtImpl) (g : Globals) (d : Draft) (fuel : Nat) (s : Json) (st : RState)
    (hst : freshResolver env g d.classDef d.metaSchema = .ok st) :
    (match checkSchema env impl g d.classDef fuel s with
     | .ok => True
     | .schemaError _ => True
     | .raise e => Props.C03.Benign d false (.raised e)
     | .other x => Props.C03.Benign d false x)
    ∨ (Props.C03.evalG env impl d none fuel s d.metaSchema (some 1) st).stop = .raised Props.C03.unshapedTarget := by
  rcases Props.C03.no_crash env hre hso impl d none fuel s d.metaSchema (meta_shaped d) (some 1) st with h | h
  · exact .inl (checkSchema_benign env impl g d fuel s st hst h)
  · exact .inr h

/-! ### Exactly what the metaschema allows

With the specification of validity WITH references (`Spec.validRN`, JS.Spec.ValidRef) and C02's
`ref_verdict_agrees`, "check_schema accepts exactly what the draft's metaschema allows" becomes a
statement against an independent specification: the bundled metaschema, read by the draft's own
rules — `$ref: "#"`, `definitions`, `dependencies`, type unions, in Draft 3 `extends` — says
"valid" for the candidate exactly when `check_schema` returns normally. The domain of the
reference-aware specification is, for each metaschema, a finite table checked by the kernel against
the regenerated metaschema and URI answers — with the side conditions of `Spec.RefDomain` read
locally (`Spec.RefDomainL`, JS.Spec.ValidRef), because `Spec.numSafe` as written rejects the
metaschemas themselves (see `metaDomain_ok_statement`). The one hypothesis is that the
metaschema validator's run on the candidate ends normally within the fuel given (candidates nest
arbitrarily deep; the recursion of the metaschema follows the candidate). -/

/-- the store `check_schema`'s resolver starts with (the registered metaschemas) and its base URI -/
def metaStore (d : Draft) : List (Str × Json) := match metaState d with | some st => st.store | none => []
def metaTop (d : Draft) : Str := match metaState d with | some st => st.top | none => []

/-- the (base URI, schema) pairs that evaluating the metaschema of draft `d` can reach: every base
    URI the draft's URI table knows × every schema object at a schema position of the metaschema
    (the `definitions` included); in drafts 6 and 7 also the boolean schemas -/
def metaDomain (d : Draft) : Str → Json → Bool := metaDom d

/-- `metaDomain_ok` AS FIRST STATED. It is FALSE (`metaDomain_ok_counterexample`), and so for every
    possible definition of `metaDomain` (`no_refDomain_has_metaschema`): `Spec.RefDomain.side` asks
    `Spec.numSafe` of every member, `numSafe` looks at every key spelled `multipleOf`/`divisibleBy`
    at any depth, and every bundled metaschema has a PROPERTY of that name
    (`"properties": {"multipleOf": {"type": "number", …}}`), so `numSafe d.metaSchema = false`. -/
def metaDomain_ok_statement : Prop :=
  ∀ d : Draft,
    Spec.RefDomain (metaEnv d) d (metaStore d) (metaDomain d) ∧ metaDomain d (metaTop d) d.metaSchema = true

/-- no `Spec.RefDomain` whatever contains a bundled metaschema -/
theorem no_refDomain_has_metaschema (env : Env) (d : Draft) (base : List (Str × Json))
    (D : Str → Json → Bool) (top : Str) :
    ¬ (Spec.RefDomain env d base D ∧ D top d.metaSchema = true) := by
  rintro ⟨hD, hs⟩
  have h := (hD.side top d.metaSchema hs).2.1
  rw [meta_not_numSafe d] at h
  cases h

theorem metaDomain_ok_counterexample : ¬ metaDomain_ok_statement :=
  fun h => no_refDomain_has_metaschema _ .d7 _ _ _ (h .d7)

/-- what holds instead: the side conditions read LOCALLY (`Spec.RefDomainL`, JS.Spec.ValidRef: each
    member's OWN `multipleOf`/`divisibleBy`/`type`/`disallow` values, which is all the evaluator
    reads of one schema object — the subschemas are members themselves); every other field is that
    of `Spec.RefDomain`. Kernel evaluation over the regenerated metaschemas and URI tables. -/
theorem metaDomain_ok_partial (d : Draft) :
    Spec.RefDomainL (metaEnv d) d (metaStore d) (metaDomain d) ∧ metaDomain d (metaTop d) d.metaSchema = true := by
  have h := metaDomOk_all d
  simp only [metaDomOk, Bool.and_eq_true] at h
  exact ⟨refDomainL_of_domainOk h.1.1, h.1.2⟩

section
variable {d : Draft} {st : RState}

private theorem fresh_of_metaState (h : metaState d = some st) :
    freshResolver (metaEnv d) Globals.initial d.classDef d.metaSchema = .ok st := by
  unfold metaState at h
  cases hr : freshResolver (metaEnv d) Globals.initial d.classDef d.metaSchema with
  | ok st' => rw [hr] at h; cases h; rfl
  | raise e => rw [hr] at h; cases h
  | miss q => rw [hr] at h; cases h

private theorem metaStore_eq (h : metaState d = some st) : metaStore d = st.store := by
  unfold metaStore; rw [h]

private theorem metaTop_eq (h : metaState d = some st) : metaTop d = st.top := by
  unfold metaTop; rw [h]

private theorem metaMemo_eq (h : metaState d = some st) : st.memo = [] := by
  have h' := metaDomOk_all d
  simp only [metaDomOk, Bool.and_eq_true] at h'
  have h3 := h'.2
  rw [show freshState d = some st from h] at h3
  exact List.isEmpty_iff.1 h3

/-- the verdict of the exhaustive metaschema run is the specification's -/
private theorem meta_verdict (s : Json) (hws : Spec.WF s = true) (fuel : Nat)
    (hst : metaState d = some st)
    (hdone : (eval (metaEnv d) ⟨fun _ _ => none⟩ (d.cfg none) fuel s d.metaSchema none st).stop = .done) :
    (eval (metaEnv d) ⟨fun _ _ => none⟩ (d.cfg none) fuel s d.metaSchema none st).errs = []
      ↔ Spec.validRN (metaEnv d) d (metaStore d) fuel (metaTop d) d.metaSchema s = true := by
  refine Props.C02.ref_verdict_agrees_local (metaEnv d) (fun _ _ => ⟨false, rfl⟩)
    (fun xs => ⟨xs, rfl, List.Perm.refl _⟩) ⟨fun _ _ _ => rfl, fun _ _ _ _ _ _ => rfl⟩
    ⟨fun _ _ => none⟩ d (metaStore d) (metaDomain d) (metaDomain_ok_partial d).1 (metaTop d)
    d.metaSchema s (metaDomain_ok_partial d).2 hws fuel st ?_ (metaTop_eq hst).symm hdone fuel
    (Nat.le_refl _)
  rw [metaStore_eq hst]
  exact Props.C15.sameWorld_fresh (metaEnv d) st (metaMemo_eq hst)

/-- … and so is the specification's answer with any number of steps from `fuel` on (the limit) -/
private theorem meta_verdict_from (s : Json) (hws : Spec.WF s = true) (fuel : Nat)
    (hst : metaState d = some st)
    (hdone : (eval (metaEnv d) ⟨fun _ _ => none⟩ (d.cfg none) fuel s d.metaSchema none st).stop = .done)
    (m : Nat) (hm : fuel ≤ m) :
    (eval (metaEnv d) ⟨fun _ _ => none⟩ (d.cfg none) fuel s d.metaSchema none st).errs = []
      ↔ Spec.validRN (metaEnv d) d (metaStore d) m (metaTop d) d.metaSchema s = true := by
  refine Props.C02.ref_verdict_agrees_local (metaEnv d) (fun _ _ => ⟨false, rfl⟩)
    (fun xs => ⟨xs, rfl, List.Perm.refl _⟩) ⟨fun _ _ _ => rfl, fun _ _ _ _ _ _ => rfl⟩
    ⟨fun _ _ => none⟩ d (metaStore d) (metaDomain d) (metaDomain_ok_partial d).1 (metaTop d)
    d.metaSchema s (metaDomain_ok_partial d).2 hws fuel st ?_ (metaTop_eq hst).symm hdone m hm
  rw [metaStore_eq hst]
  exact Props.C15.sameWorld_fresh (metaEnv d) st (metaMemo_eq hst)

end

/-- **check_schema accepts exactly what the metaschema allows** (reference-aware specification) -/
theorem checkSchema_accepts_iff_spec (d : Draft) (s : Json) (hws : Spec.WF s = true) (fuel : Nat) (st : RState)
    (hst : metaState d = some st)
    (hdone : (eval (metaEnv d) ⟨fun _ _ => none⟩ (d.cfg none) fuel s d.metaSchema none st).stop = .done) :
    checkSchema (metaEnv d) ⟨fun _ _ => none⟩ Globals.initial d.classDef fuel s = .ok
      ↔ Spec.validRN (metaEnv d) d (metaStore d) fuel (metaTop d) d.metaSchema s = true := by
  rw [checkSchema_draft _ _ _ d fuel s st (fresh_of_metaState hst), Out.verdict_ok,
    ← meta_verdict s hws fuel hst hdone]
  exact ⟨fun h => h.1, fun h => ⟨h, hdone⟩⟩

/-- … and rejects, with `SchemaError`, exactly what it forbids -/
theorem checkSchema_rejects_iff_spec (d : Draft) (s : Json) (hws : Spec.WF s = true) (fuel : Nat) (st : RState)
    (hst : metaState d = some st)
    (hdone : (eval (metaEnv d) ⟨fun _ _ => none⟩ (d.cfg none) fuel s d.metaSchema none st).stop = .done) :
    (∃ e, checkSchema (metaEnv d) ⟨fun _ _ => none⟩ Globals.initial d.classDef fuel s = .schemaError e)
      ↔ Spec.validRN (metaEnv d) d (metaStore d) fuel (metaTop d) d.metaSchema s = false := by
  have hv := meta_verdict s hws fuel hst hdone
  rw [checkSchema_draft _ _ _ d fuel s st (fresh_of_metaState hst), Out.verdict_done _ hdone]
  cases he : (eval (metaEnv d) ⟨fun _ _ => none⟩ (d.cfg none) fuel s d.metaSchema none st).errs with
  | nil =>
    refine ⟨fun ⟨e, h⟩ => (nomatch h), fun h => ?_⟩
    rw [hv.1 he] at h
    cases h
  | cons e es =>
    refine ⟨fun _ => ?_, fun _ => ⟨e, rfl⟩⟩
    rw [Bool.eq_false_iff]
    intro h
    rw [hv.2 h] at he
    cases he

/-! ### The bridge: what check_schema accepts has the shape the evaluator's theorems assume

C01, C03, C05, C06 are stated for schemas of the shape `Spec.shaped`/`Spec.shapedR` (a hand-written
predicate: "what the metaschema prescribes, where validation cares"). That check_schema accepts
only such schemas was sampled so far (SPEC/SHAPE correspondence). With the reference-aware
specification it is a statement about two specifications: if the bundled metaschema, read by the
draft's own rules, allows the candidate (in the limit: `Spec.ValidR … true`), then the candidate
is `shapedR`. Proved for all four drafts as stated (JS.Proofs.Bridge): no keyword was found where
`Spec.shapedN` demands more than the bundled metaschema. Draft 3 does not even need the proviso on
`$ref` (`allowed_is_shaped_d3`); draft 4 does (`allowed_is_shaped_d4_needs_refs`). -/

/-- the metaschema allows `s` (the specification's answer is eventually `true`) -/
def MetaAllows (d : Draft) (s : Json) : Prop :=
  Spec.ValidR (metaEnv d) d (metaStore d) (metaTop d) d.metaSchema s true

set_option linter.unusedVariables false in  -- `hws` turns out not to be needed
/-- **The bridge** for drafts 6 and 7 (whose metaschemas constrain `$ref` to strings) -/
theorem allowed_is_shaped (d : Draft) (hd : d = .d6 ∨ d = .d7) (s : Json) (hws : Spec.WF s = true)
    (h : MetaAllows d s) : Spec.shapedR d s = true :=
  Bridge.allowed_shaped67 d hd s ⟨metaTop d, (Bridge.facts d).root.top, h⟩

set_option linter.unusedVariables false in  -- `hws` turns out not to be needed
/-- … and for drafts 3 and 4, whose metaschemas say nothing about `$ref`, for candidates whose
    `$ref` values are strings (C03's own proviso) -/
theorem allowed_is_shaped_d34 (d : Draft) (hd : d = .d3 ∨ d = .d4) (s : Json) (hws : Spec.WF s = true)
    (hrefs : Spec.refsAreStrings s = true) (h : MetaAllows d s) : Spec.shapedR d s = true :=
  Bridge.allowed_shaped34 d hd s hrefs ⟨metaTop d, (Bridge.facts d).root.top, h⟩

/-- hence: what check_schema accepts (the metaschema run ending normally) is shaped -/
theorem accepted_is_shaped (d : Draft) (s : Json) (hws : Spec.WF s = true)
    (hrefs : Spec.refsAreStrings s = true) (fuel : Nat) (st : RState) (hst : metaState d = some st)
    (hdone : (eval (metaEnv d) ⟨fun _ _ => none⟩ (d.cfg none) fuel s d.metaSchema none st).stop = .done)
    (hacc : checkSchema (metaEnv d) ⟨fun _ _ => none⟩ Globals.initial d.classDef fuel s = .ok) :
    Spec.shapedR d s = true := by
  have herr := ((checkSchema_draft _ _ _ d fuel s st (fresh_of_metaState hst)).symm.trans hacc)
  rw [Out.verdict_ok] at herr
  have hall : MetaAllows d s :=
    ⟨fuel, fun m hm => (meta_verdict_from s hws fuel hst hdone m hm).1 herr.1⟩
  cases d
  · exact allowed_is_shaped_d34 .d3 (.inl rfl) s hws hrefs hall
  · exact allowed_is_shaped_d34 .d4 (.inr rfl) s hws hrefs hall
  · exact allowed_is_shaped .d6 (.inl rfl) s hws hall
  · exact allowed_is_shaped .d7 (.inr rfl) s hws hall

/-- Draft 3 needs no proviso on `$ref`: its bundled metaschema has the property
    `"$ref": {"type": "string", "format": "uri"}` (additional to the statements as given) -/
theorem allowed_is_shaped_d3 (s : Json) (h : MetaAllows .d3 s) : Spec.shapedR .d3 s = true :=
  Bridge.allowed_shaped3 s ⟨metaTop .d3, (Bridge.facts .d3).root.top, h⟩

/-- `{"$ref": 1}` -/
def refNum : Json := .obj [(k!"$ref", .num (.int 1))]

/-- the metaschema run of draft 4 on `{"$ref": 1}` ends normally without an error -/
def refNumAccepted : Bool :=
  match metaState .d4 with
  | some st =>
    (eval (metaEnv .d4) ⟨fun _ _ => none⟩ (Draft.d4.cfg none) 8 refNum Draft.d4.metaSchema none st).stop.isDone
    && (eval (metaEnv .d4) ⟨fun _ _ => none⟩ (Draft.d4.cfg none) 8 refNum Draft.d4.metaSchema none st).errs.isEmpty
  | none => false

theorem refNumAccepted_ok : refNumAccepted = true := by decide +kernel

/-- In draft 4 the proviso cannot be dropped: the bundled metaschema has no `$ref` property, it
    allows `{"$ref": 1}` (in the limit), which is not `shapedR` (a non-string `$ref` is outside
    the domain of C03: the proviso of `allowed_is_shaped_d34` is exactly C03's). -/
theorem allowed_is_shaped_d4_needs_refs :
    MetaAllows .d4 refNum ∧ Spec.WF refNum = true ∧ Spec.shapedR .d4 refNum = false := by
  refine ⟨?_, by decide +kernel, by decide +kernel⟩
  have h := refNumAccepted_ok
  unfold refNumAccepted at h
  cases hst : metaState .d4 with
  | none => rw [hst] at h; cases h
  | some st =>
    rw [hst] at h
    dsimp only at h
    rw [Bool.and_eq_true] at h
    have hdone := Props.C02.Recursive.done_of_isDone h.1
    exact ⟨8, fun m hm => (meta_verdict_from refNum (by decide +kernel) 8 hst hdone m hm).1
      (List.isEmpty_iff.1 h.2)⟩

/-- **… and anything check_schema accepts can then be used to validate any instance without
    crashing** (the property's third sentence, C03 through the bridge): for a candidate that
    check_schema accepts (the metaschema run ending normally), every evaluation against ANY
    instance, with or without a format checker, under every budget and from every resolver state,
    ends benignly — done, closed early, out of fuel, `RefResolutionError`, an oracle miss, in Draft 3
    `UnknownType`, a format function's own exception — unless a reference met on the way designates
    something that is not a schema (the guarded evaluator's marker). `refsAreStrings` is C03's
    proviso (needed in Draft 4 only: `allowed_is_shaped_d4_needs_refs`). -/
theorem accepted_never_crashes (d : Draft) (s : Json) (hws : Spec.WF s = true)
    (hrefs : Spec.refsAreStrings s = true) (fuel : Nat) (st₀ : RState) (hst : metaState d = some st₀)
    (hdone : (eval (metaEnv d) ⟨fun _ _ => none⟩ (d.cfg none) fuel s d.metaSchema none st₀).stop = .done)
    (hacc : checkSchema (metaEnv d) ⟨fun _ _ => none⟩ Globals.initial d.classDef fuel s = .ok)
    (env : Env) (hre : Props.C03.RegexOk env) (hso : Spec.SetOrderOk env) (impl : FmtImpl)
    (fc : Option FormatChecker) (n : Nat) (i : Json) (b : Option Nat) (st : RState) :
    Props.C03.Benign d fc.isSome (eval env impl (d.cfg fc) n i s b st).stop
    ∨ (Props.C03.evalG env impl d fc n i s b st).stop = .raised Props.C03.unshapedTarget :=
  Props.C03.no_crash env hre hso impl d fc n i s (accepted_is_shaped d s hws hrefs fuel st₀ hst hdone hacc) b st

/-! ### The metaschema run terminates: the hypothesis `hdone` discharged

The bundled metaschemas are recursive through `{"$ref": "#"}` and `#/definitions/…`, but every cycle
of references passes through a keyword that descends into a strict part of the candidate
(`properties`, `additionalProperties`, `items`, `dependencies`, …). JS.Proofs.Terminate makes this
a certificate: a rank on the (base URI, schema) pairs of `metaDomain d` that strictly decreases along
every edge on which the evaluator keeps THE SAME instance — `allOf`/`anyOf`/`oneOf`, `not`,
`if`/`then`/`else`, schema-valued `dependencies`, draft 3 `extends` and schemas inside `type`, and
`$ref` to its designated schema — checked by the kernel on the regenerated metaschemas and URI tables
(`Terminate.metaRankOk_d3 … _d7`; the largest rank is 4). By induction on (size of the candidate,
rank) the run never stops for lack of fuel once the fuel is `(s.size + 1) * 5`, WHATEVER the
candidate (`metaschema_run_terminates`). For well-formed candidates (distinct keys) it then ends
with `.done` (`metaschema_run_done`): the evaluator read like the specification — out of fuel
means "accept" — ends normally on every member of the reference domain (the induction of C02's
`ref_verdict_agrees_local` with its termination clause), and agrees with the evaluator wherever
the latter has fuel left. So `hdone` follows from `bound s ≤ fuel`. -/

/-- the fuel that suffices for the metaschema run on candidate `s` -/
def bound (s : Json) : Nat := (s.size + 1) * 5

section
variable {d : Draft} {st : RState}

private theorem know_of_metaState (h : metaState d = some st) :
    Knowledge.Know (metaEnv d) (freshStore d) st := by
  have hk := Terminate.know_fresh (metaEnv d) st (metaMemo_eq h)
  rw [← metaStore_eq h] at hk
  exact hk

private theorem top_of_metaState (h : metaState d = some st) : st.top = freshTop d :=
  (metaTop_eq h).symm

end

/-- **the metaschema run never runs out of fuel**: for EVERY candidate `s` (any JSON value) -/
theorem metaschema_run_terminates (d : Draft) (s : Json) (st : RState) (hst : metaState d = some st)
    (fuel : Nat) (hfuel : bound s ≤ fuel) :
    (eval (metaEnv d) ⟨fun _ _ => none⟩ (d.cfg none) fuel s d.metaSchema none st).stop ≠ .fuel :=
  Terminate.meta_run_not_fuel d _ none s fuel hfuel none st (know_of_metaState hst) (top_of_metaState hst)

/-- … and so does the run that `check_schema` really makes (closed at the first error) -/
theorem metaschema_first_error_terminates (d : Draft) (s : Json) (st : RState)
    (hst : metaState d = some st) (fuel : Nat) (hfuel : bound s ≤ fuel) :
    (eval (metaEnv d) ⟨fun _ _ => none⟩ (d.cfg none) fuel s d.metaSchema (some 1) st).stop ≠ .fuel :=
  Terminate.meta_run_not_fuel d _ none s fuel hfuel (some 1) st (know_of_metaState hst) (top_of_metaState hst)

/-- **the metaschema run ends normally** on every well-formed candidate: the hypothesis `hdone` of
    the theorems above holds whenever `bound s ≤ fuel` -/
theorem metaschema_run_done (d : Draft) (s : Json) (hws : Spec.WF s = true) (st : RState)
    (hst : metaState d = some st) (fuel : Nat) (hfuel : bound s ≤ fuel) :
    (eval (metaEnv d) ⟨fun _ _ => none⟩ (d.cfg none) fuel s d.metaSchema none st).stop = .done := by
  rcases Terminate.meta_run_done d _ s hws fuel hfuel none nofun st (know_of_metaState hst)
    (top_of_metaState hst) with h | ⟨_, h⟩
  · exact h
  · exact absurd rfl h

/-- with ANY fuel the metaschema run on a well-formed candidate ends normally or is out of fuel:
    never an exception (not even the documented ones), never an oracle miss — `checkSchema_never_crashes`
    without its provisos, for this installation's URI answers -/
theorem metaschema_run_done_or_fuel (d : Draft) (s : Json) (hws : Spec.WF s = true) (st : RState)
    (hst : metaState d = some st) (fuel : Nat) :
    (eval (metaEnv d) ⟨fun _ _ => none⟩ (d.cfg none) fuel s d.metaSchema none st).stop = .done
      ∨ (eval (metaEnv d) ⟨fun _ _ => none⟩ (d.cfg none) fuel s d.metaSchema none st).stop = .fuel :=
  Terminate.meta_run_done_or_fuel d _ s hws fuel st (know_of_metaState hst) (top_of_metaState hst)

/-- **check_schema is total**: on a well-formed candidate, with `bound s` fuel, it returns normally
    or raises `SchemaError` — no other exception, no oracle miss, not out of fuel -/
theorem checkSchema_total (d : Draft) (s : Json) (hws : Spec.WF s = true) (fuel : Nat) (st : RState)
    (hst : metaState d = some st) (hfuel : bound s ≤ fuel) :
    checkSchema (metaEnv d) ⟨fun _ _ => none⟩ Globals.initial d.classDef fuel s = .ok
      ∨ ∃ e, checkSchema (metaEnv d) ⟨fun _ _ => none⟩ Globals.initial d.classDef fuel s = .schemaError e := by
  rw [checkSchema_draft _ _ _ d fuel s st (fresh_of_metaState hst),
    Out.verdict_done _ (metaschema_run_done d s hws st hst fuel hfuel)]
  cases (eval (metaEnv d) ⟨fun _ _ => none⟩ (d.cfg none) fuel s d.metaSchema none st).errs with
  | nil => exact .inl rfl
  | cons e _ => exact .inr ⟨e, rfl⟩

/-- **check_schema accepts exactly what the metaschema allows**, without `hdone` -/
theorem checkSchema_accepts_iff_spec_total (d : Draft) (s : Json) (hws : Spec.WF s = true) (fuel : Nat)
    (st : RState) (hst : metaState d = some st) (hfuel : bound s ≤ fuel) :
    checkSchema (metaEnv d) ⟨fun _ _ => none⟩ Globals.initial d.classDef fuel s = .ok
      ↔ Spec.validRN (metaEnv d) d (metaStore d) fuel (metaTop d) d.metaSchema s = true :=
  checkSchema_accepts_iff_spec d s hws fuel st hst (metaschema_run_done d s hws st hst fuel hfuel)

/-- … and rejects, with `SchemaError`, exactly what it forbids, without `hdone` -/
theorem checkSchema_rejects_iff_spec_total (d : Draft) (s : Json) (hws : Spec.WF s = true) (fuel : Nat)
    (st : RState) (hst : metaState d = some st) (hfuel : bound s ≤ fuel) :
    (∃ e, checkSchema (metaEnv d) ⟨fun _ _ => none⟩ Globals.initial d.classDef fuel s = .schemaError e)
      ↔ Spec.validRN (metaEnv d) d (metaStore d) fuel (metaTop d) d.metaSchema s = false :=
  checkSchema_rejects_iff_spec d s hws fuel st hst (metaschema_run_done d s hws st hst fuel hfuel)

/-- the specification's answer on the metaschema HAS a limit for every well-formed candidate (it
    is constant from `bound s` steps on), and check_schema accepts exactly when the limit is `true` -/
theorem checkSchema_accepts_iff_allowed (d : Draft) (s : Json) (hws : Spec.WF s = true) (fuel : Nat)
    (st : RState) (hst : metaState d = some st) (hfuel : bound s ≤ fuel) :
    checkSchema (metaEnv d) ⟨fun _ _ => none⟩ Globals.initial d.classDef fuel s = .ok ↔ MetaAllows d s := by
  have hdone := metaschema_run_done d s hws st hst fuel hfuel
  rw [checkSchema_draft _ _ _ d fuel s st (fresh_of_metaState hst), Out.verdict_ok]
  constructor
  · intro h
    exact ⟨fuel, fun m hm => (meta_verdict_from s hws fuel hst hdone m hm).1 h.1⟩
  · rintro ⟨n, hn⟩
    refine ⟨?_, hdone⟩
    exact (meta_verdict_from s hws fuel hst hdone (max fuel n) (Nat.le_max_left _ _)).2
      (hn _ (Nat.le_max_right _ _))

/-- what check_schema accepts is shaped, without `hdone` -/
theorem accepted_is_shaped_total (d : Draft) (s : Json) (hws : Spec.WF s = true)
    (hrefs : Spec.refsAreStrings s = true) (fuel : Nat) (st : RState) (hst : metaState d = some st)
    (hfuel : bound s ≤ fuel)
    (hacc : checkSchema (metaEnv d) ⟨fun _ _ => none⟩ Globals.initial d.classDef fuel s = .ok) :
    Spec.shapedR d s = true :=
  accepted_is_shaped d s hws hrefs fuel st hst (metaschema_run_done d s hws st hst fuel hfuel) hacc

/-- … and can be used to validate any instance without crashing, without `hdone` -/
theorem accepted_never_crashes_total (d : Draft) (s : Json) (hws : Spec.WF s = true)
    (hrefs : Spec.refsAreStrings s = true) (fuel : Nat) (st₀ : RState) (hst : metaState d = some st₀)
    (hfuel : bound s ≤ fuel)
    (hacc : checkSchema (metaEnv d) ⟨fun _ _ => none⟩ Globals.initial d.classDef fuel s = .ok)
    (env : Env) (hre : Props.C03.RegexOk env) (hso : Spec.SetOrderOk env) (impl : FmtImpl)
    (fc : Option FormatChecker) (n : Nat) (i : Json) (b : Option Nat) (st : RState) :
    Props.C03.Benign d fc.isSome (eval env impl (d.cfg fc) n i s b st).stop
    ∨ (Props.C03.evalG env impl d fc n i s b st).stop = .raised Props.C03.unshapedTarget :=
  accepted_never_crashes d s hws hrefs fuel st₀ hst (metaschema_run_done d s hws st₀ hst fuel hfuel) hacc
    env hre hso impl fc n i b st

/-! Non-vacuity: a nested candidate (a property whose items are constrained, a property that refers
back to the root, a `dependencies` array), run by the kernel with exactly `bound` fuel. -/

/-- `{"type": "object", "properties": {"tags": {"type": "array", "items": {"type": "string",
    "minLength": 1}}, "next": {"$ref": "#"}}, "dependencies": {"next": ["tags"]},
    "additionalProperties": false}` -/
def nested : Json :=
  .obj [(k!"type", .str (k!"object")),
        (k!"properties", .obj [
          (k!"tags", .obj [(k!"type", .str (k!"array")),
                           (k!"items", .obj [(k!"type", .str (k!"string")), (k!"minLength", .num (.int 1))])]),
          (k!"next", .obj [(k!"$ref", .str (k!"#"))])]),
        (k!"dependencies", .obj [(k!"next", .arr [.str (k!"tags")])]),
        (k!"additionalProperties", .bool false)]

/-- the metaschema run of draft `d` on `nested`, with exactly `bound nested` fuel, ends normally
    without an error -/
def nestedRun (d : Draft) : Bool :=
  match metaState d with
  | some st =>
    (eval (metaEnv d) ⟨fun _ _ => none⟩ (d.cfg none) (bound nested) nested d.metaSchema none st).stop.isDone
    && (eval (metaEnv d) ⟨fun _ _ => none⟩ (d.cfg none) (bound nested) nested d.metaSchema none st).errs.isEmpty
  | none => false

theorem nestedRun_ok : bound nested = 135 ∧ nestedRun .d3 = true ∧ nestedRun .d4 = true ∧ nestedRun .d7 = true := by
  decide +kernel

/-- the theorems instantiated: check_schema of draft 7 accepts `nested` exactly when the metaschema
    allows it; and it does (kernel evaluation) -/
example :
    (checkSchema (metaEnv .d7) ⟨fun _ _ => none⟩ Globals.initial Draft.d7.classDef (bound nested) nested = .ok
      ↔ MetaAllows .d7 nested)
    ∧ checkSchema (metaEnv .d7) ⟨fun _ _ => none⟩ Globals.initial Draft.d7.classDef (bound nested) nested = .ok := by
  obtain ⟨st, hst, _⟩ := meta_refs_designate_schemas .d7
  have hws : Spec.WF nested = true := by decide +kernel
  refine ⟨checkSchema_accepts_iff_allowed .d7 nested hws _ st hst (Nat.le_refl _), ?_⟩
  have h := nestedRun_ok.2.2.2
  unfold nestedRun at h
  rw [hst] at h
  dsimp only at h
  rw [Bool.and_eq_true] at h
  rw [checkSchema_draft _ _ _ .d7 _ nested st (fresh_of_metaState hst), Out.verdict_ok]
  exact ⟨List.isEmpty_iff.1 h.2, Props.C02.Recursive.done_of_isDone h.1⟩

end JS.Props.C11
