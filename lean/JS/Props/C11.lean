/-
  C11 — check_schema accepts exactly what the draft's metaschema allows.
  Property theorems only; helper lemmas live in JS/Proofs/CheckSchema.lean.

  Model: `checkSchema` (JS.Module) = the first error of the class's own evaluator running the
  REGENERATED metaschema on the candidate, from a resolver whose store is seeded with the
  registered metaschemas; `metaEnv d` (JS.MetaEnv) = this installation's urllib answers on the URI
  questions that arise (REGENERATED).
  What is proved: check_schema *is* metaschema validation by the class itself and reports its
  first error with all fields; each metaschema is a shaped schema, so C03 applies to it as the
  schema for EVERY candidate as instance: nothing but SchemaError can come out, unless a reference
  of the metaschema designated a non-schema — which the kernel excludes by evaluating every
  reference of every metaschema; each metaschema accepts itself (kernel evaluation).
  "Exactly what the metaschema allows" in the sense of an independent specification with
  references is NOT proved (C01's specification is reference-free); it is decided by the CHK
  correspondence on malformed candidates.
-/
import JS.Proofs.CheckSchema
namespace JS.Props.C11
open JS

/-- check_schema is the class validating the candidate against its own metaschema, first error
    re-typed as SchemaError with every field copied (`create_from`), format checking off -/
theorem checkSchema_is_metaschema_validation (env : Env) (impl : FmtImpl) (g : Globals) (c : ClassDef)
    (fuel : Nat) (s : Json) (st : RState) (hst : freshResolver env g c c.metaSchema = .ok st) :
    checkSchema env impl g c fuel s =
      (match validateM (eval env impl { c.cfg with formatChecker := none } fuel s c.metaSchema) st with
       | (.ok (), _) => .ok
       | (.invalid e, _) => .schemaError e
       | (.raise e, _) => .raise e
       | (.other x, _) => .other x) := by
  exact checkSchema_unfold env impl g c fuel s st hst

/-- … and that first error is the first error `iter_errors` of the metaschema validator yields -/
theorem schemaError_is_first_metaschema_error (env : Env) (impl : FmtImpl) (g : Globals) (c : ClassDef)
    (fuel : Nat) (s : Json) (st : RState) (e : Err) (hst : freshResolver env g c c.metaSchema = .ok st)
    (h : checkSchema env impl g c fuel s = .schemaError e) :
    (eval env impl { c.cfg with formatChecker := none } fuel s c.metaSchema none st).errs.head? = some e := by
  exact schemaError_head env impl g c fuel s st e hst h

/-- accepted ⇔ the metaschema validator yields no error and ends normally -/
theorem accepts_iff_no_error (env : Env) (impl : FmtImpl) (g : Globals) (c : ClassDef)
    (fuel : Nat) (s : Json) (st : RState) (hst : freshResolver env g c c.metaSchema = .ok st) :
    checkSchema env impl g c fuel s = .ok ↔
      ((eval env impl { c.cfg with formatChecker := none } fuel s c.metaSchema none st).errs = []
        ∧ (eval env impl { c.cfg with formatChecker := none } fuel s c.metaSchema none st).stop = .done) := by
  exact accepts_iff env impl g c fuel s st hst

/-- every bundled metaschema has the shape its own draft prescribes (so the evaluator's
    no-crash theorems apply with the metaschema as schema and ANY candidate as instance) -/
theorem meta_shaped (d : Draft) : Spec.shapedR d d.metaSchema = true := by
  cases d
  · exact meta_shaped_d3
  · exact meta_shaped_d4
  · exact meta_shaped_d6
  · exact meta_shaped_d7

/-- the `$ref` strings occurring in a metaschema -/
def refsOf : Json → List Str
  | .arr xs => refsOfList xs
  | .obj kvs => refsOfKvs kvs
  | _ => []
where
  refsOfList : List Json → List Str
    | [] => []
    | x :: xs => refsOf x ++ refsOfList xs
  refsOfKvs : List (Str × Json) → List Str
    | [] => []
    | (k, v) :: rest => (if k = skey "$ref" then (match v with | .str r => [r] | _ => []) else []) ++ refsOf v ++ refsOfKvs rest

/-- the resolver state `check_schema` starts from, under this installation's urllib -/
def metaState (d : Draft) : Option RState :=
  match freshResolver (metaEnv d) Globals.initial d.classDef d.metaSchema with
  | .ok st => some st
  | _ => none

/-- **every reference of every bundled metaschema designates a schema**: from the initial scope and
    from every scope a reference of the metaschema leads to, each `$ref` string of the metaschema
    resolves — locally, without retrieval — to a shaped schema (kernel evaluation over the
    regenerated metaschemas and URI tables) -/
theorem meta_refs_designate_schemas (d : Draft) :
    ∃ st, metaState d = some st ∧
      ∀ top ∈ (d.urljoinTable.map (·.1.1)).eraseDups, ∀ r ∈ (refsOf d.metaSchema).eraseDups,
        match resolve (metaEnv d) r { st with scopes := [top] } with
        | (.ok (_, target), st') => Spec.shapedR d target = true ∧ st'.fetchLog = []
        | _ => False := by
  cases d
  · exact refsOk_sound (env := metaEnv .d3) (d := .d3) (o := metaState .d3) (by decide +kernel)
  · exact refsOk_sound (env := metaEnv .d4) (d := .d4) (o := metaState .d4) (by decide +kernel)
  · exact refsOk_sound (env := metaEnv .d6) (d := .d6) (o := metaState .d6) (by decide +kernel)
  · exact refsOk_sound (env := metaEnv .d7) (d := .d7) (o := metaState .d7) (by decide +kernel)

/-- **each bundled metaschema is accepted by its own class** (kernel evaluation of the whole
    check under the regenerated URI answers) -/
theorem meta_self_accept (d : Draft) :
    checkSchema (metaEnv d) ⟨fun _ _ => none⟩ Globals.initial d.classDef 64 d.metaSchema = .ok := by
  exact selfCheck_ok d

/-- **nothing but SchemaError**: for every candidate, check_schema of a draft returns normally,
    raises SchemaError, or stops in one of the benign ways of C03 (out of fuel; an oracle miss;
    `RefResolutionError`; in Draft 3 `UnknownType`) — never an undocumented exception — unless the
    guarded evaluator's marker shows that a reference designated a non-schema (excluded for the
    bundled metaschemas by `meta_refs_designate_schemas`) -/
theorem checkSchema_never_crashes (env : Env) (hre : Props.C03.RegexOk env) (hso : Spec.SetOrderOk env)
    (impl : FmtImpl) (g : Globals) (d : Draft) (fuel : Nat) (s : Json) (st : RState)
    (hst : freshResolver env g d.classDef d.metaSchema = .ok st) :
    (match checkSchema env impl g d.classDef fuel s with
     | .ok => True
     | .schemaError _ => True
     | .raise e => Props.C03.Benign d false (.raised e)
     | .other x => Props.C03.Benign d false x)
    ∨ (Props.C03.evalG env impl d none fuel s d.metaSchema (some 1) st).stop = .raised Props.C03.unshapedTarget := by
  rcases Props.C03.no_crash env hre hso impl d none fuel s d.metaSchema (meta_shaped d) (some 1) st with h | h
  · exact .inl (checkSchema_benign env impl g d fuel s st hst h)
  · exact .inr h

end JS.Props.C11
