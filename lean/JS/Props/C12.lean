/-
  C12 — format is off unless a checker is given, and then follows the checker exactly.
  Property theorems only; helper lemmas live in JS/Proofs/FormatSwitch.lean.
  Model: `fmtCheck` (= `FormatChecker.check`), `kwFormat` (the keyword function), `runFmt`
  (JS.Keywords). A format function is an ARBITRARY function of the instance (`FmtImpl`/`env.fmt`):
  it returns a value of some truthiness or raises an exception given by its MRO.
-/
import JS.Proofs.FormatSwitch
namespace JS.Props.C12
open JS

/-- `FormatChecker.conforms`: `check` without the `FormatError` -/
def conforms (env : Env) (impl : FmtImpl) (fc : FormatChecker) (inst : Json) (name : Str) : Res Bool :=
  match fmtCheck env impl fc inst name with
  | .ok none => .ok true
  | .ok (some _) => .ok false
  | .raise e => .raise e
  | .miss q => .miss q

/-- Without a format checker, `format` has no effect: for every name and every instance. -/
theorem format_off (env : Env) (impl : FmtImpl) (cfg : Cfg) (h : cfg.formatChecker = none)
    (fmt inst : Json) (b : Option Nat) (st : RState) :
    kwFormat env impl cfg fmt inst b st = ⟨[], .done, st⟩ := by
  unfold kwFormat
  simp only [h]
  rfl

/-- With a checker, an instance fails `format` exactly when `conforms` is false; exceptions that
    `conforms` lets through reach the caller of the validation unchanged. -/
theorem format_follows_conforms (env : Env) (impl : FmtImpl) (cfg : Cfg) (fc : FormatChecker)
    (h : cfg.formatChecker = some fc) (name : Str) (inst : Json) (st : RState) :
    match conforms env impl fc inst name with
    | .ok true => kwFormat env impl cfg (.str name) inst none st = ⟨[], .done, st⟩
    | .ok false => ∃ e, (kwFormat env impl cfg (.str name) inst none st) = ⟨[e], .done, st⟩
    | .raise x => kwFormat env impl cfg (.str name) inst none st = ⟨[], .raised x, st⟩
    | .miss q => kwFormat env impl cfg (.str name) inst none st = ⟨[], .miss q, st⟩ := by
  unfold conforms
  cases hc : fmtCheck env impl fc inst name with
  | ok r =>
    cases r with
    | none => exact kwFormat_str_pass env impl cfg fc h name inst hc none st
    | some cause => exact ⟨_, kwFormat_str_fail env impl cfg fc h name inst cause hc st⟩
  | raise x => exact kwFormat_str_raise env impl cfg fc h name inst x hc none st
  | miss q => exact kwFormat_str_miss env impl cfg fc h name inst q hc none st

/-- Names the checker does not know always pass. -/
theorem unknown_name_passes (env : Env) (impl : FmtImpl) (fc : FormatChecker) (inst : Json) (name : Str)
    (h : fc.find name = none) : fmtCheck env impl fc inst name = .ok none := by
  exact fmtCheck_unknown env impl fc inst name h

/-- A truthy result passes, a falsy one is a `FormatError` without cause. -/
theorem result_truthiness (env : Env) (impl : FmtImpl) (fc : FormatChecker) (inst : Json) (name : Str)
    (e : FmtEntry) (t : Bool) (hf : fc.find name = some e) (hr : runFmt env impl e inst = .ok (.ret t)) :
    fmtCheck env impl fc inst name = .ok (if t then none else some none) := by
  exact fmtCheck_ret env impl fc inst name e t hf hr

/-- An exception listed in `raises` (or a subclass of a listed one) becomes a `FormatError`
    whose cause is that exception — and so the cause of the `ValidationError`. -/
theorem listed_exception_is_cause (env : Env) (impl : FmtImpl) (cfg : Cfg) (fc : FormatChecker)
    (inst : Json) (name : Str) (e : FmtEntry) (cls : String) (mro : List String)
    (hc : cfg.formatChecker = some fc)
    (hf : fc.find name = some e) (hr : runFmt env impl e inst = .ok (.raise (cls :: mro)))
    (hl : (cls :: mro).any (fun c => e.raises.contains c) = true) (st : RState) :
    fmtCheck env impl fc inst name = .ok (some (some cls))
    ∧ ∃ err, kwFormat env impl cfg (.str name) inst none st = ⟨[err], .done, st⟩ ∧ err.cause = some cls := by
  have h1 := fmtCheck_listed env impl fc inst name e cls mro hf hr hl
  exact ⟨h1, _, kwFormat_str_fail env impl cfg fc hc name inst (some cls) h1 st, rfl⟩

/-- Any other exception raised by a format function reaches the caller unchanged. -/
theorem unlisted_exception_propagates (env : Env) (impl : FmtImpl) (cfg : Cfg) (fc : FormatChecker)
    (inst : Json) (name : Str) (e : FmtEntry) (cls : String) (mro : List String)
    (hc : cfg.formatChecker = some fc)
    (hf : fc.find name = some e) (hr : runFmt env impl e inst = .ok (.raise (cls :: mro)))
    (hl : (cls :: mro).any (fun c => e.raises.contains c) = false) (b : Option Nat) (st : RState) :
    fmtCheck env impl fc inst name = .raise (.custom cls)
    ∧ kwFormat env impl cfg (.str name) inst b st = ⟨[], .raised (.custom cls), st⟩ := by
  have h1 := fmtCheck_unlisted env impl fc inst name e cls mro hf hr hl
  exact ⟨h1, kwFormat_str_raise env impl cfg fc hc name inst _ h1 b st⟩

/-- `format` never touches the resolver state. -/
theorem format_pure (env : Env) (impl : FmtImpl) (cfg : Cfg) (fmt inst : Json) (b : Option Nat) (st : RState) :
    (kwFormat env impl cfg fmt inst b st).st = st := by
  exact kwFormat_st env impl cfg fmt inst b st

end JS.Props.C12
