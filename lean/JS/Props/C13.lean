/-
  C13 — Built-in format checkers decide their grammars exactly and never raise.
  Property theorems only; helper lemmas live in JS/Proofs/Formats.lean.
  Model: `fmtEmail`, `fmtIpv4`, `fmtIpv6`, `fmtDate`, `builtinImpl` (JS.Format), `fmtCheck` (JS.Keywords).
  Specification: `Spec.isIpv4Text`, `Spec.isIpv6Text`, `Spec.isFullDate` (JS.Spec.Formats).
  (`regex` is answered by the regular-expression oracle and is not modelled here.)
-/
import JS.Proofs.Formats
namespace JS.Props.C13
open JS

/-! ### ipv4 -/

/-- `is_ipv4` accepts exactly the dotted quads of four decimal octets 0–255 without leading zeros. -/
theorem ipv4_iff_grammar (s : Str) : fmtIpv4 (.str s) = .ret true ↔ Spec.isIpv4Text s := by
  exact Fmt.fmtIpv4_iff s

/-- On every string `is_ipv4` returns a truthy value or raises `AddressValueError` — nothing else. -/
theorem ipv4_total (s : Str) :
    fmtIpv4 (.str s) = .ret true ∨
      fmtIpv4 (.str s) = .raise ["AddressValueError", "ValueError", "Exception", "BaseException", "object"] := by
  exact Fmt.fmtIpv4_cases s

/-! ### ipv6 -/

/-- `is_ipv6` accepts exactly the RFC 4291 §2.2 text forms: eight groups of 1–4 hex digits, or one
    `::` standing for one or more groups, in either case optionally with the last two groups written
    as a dotted quad; nothing else (in particular no zone id and no prefix length). -/
theorem ipv6_iff_grammar (s : Str) : fmtIpv6 (.str s) = .ret true ↔ Spec.isIpv6Text s := by
  exact Fmt.fmtIpv6_iff s

def ipv6_iff_grammar_statement : Prop :=
  ∀ s : Str, fmtIpv6 (.str s) = .ret true ↔ Spec.isIpv6Text s

theorem ipv6_iff_grammar_holds : ipv6_iff_grammar_statement := ipv6_iff_grammar

/-- On every string `is_ipv6` returns a boolean or raises `AddressValueError` — nothing else. -/
theorem ipv6_total (s : Str) :
    (∃ b, fmtIpv6 (.str s) = .ret b) ∨
      fmtIpv6 (.str s) = .raise ["AddressValueError", "ValueError", "Exception", "BaseException", "object"] := by
  exact Fmt.fmtIpv6_cases s

/-- An accepted string has neither a zone id (`%…`) nor a prefix length (`/…`). -/
theorem ipv6_no_zone_no_prefix (s : Str) (h : fmtIpv6 (.str s) = .ret true) : '%' ∉ s ∧ '/' ∉ s := by
  have hp := Fmt.isIpv6Text_plain s ((ipv6_iff_grammar s).mp h)
  exact ⟨fun hm => (hp _ hm).2 rfl, fun hm => (hp _ hm).1 rfl⟩

/-! ### date -/

/-- The full statement against RFC 3339 `full-date`. It is FALSE: see `date_counterexample_year0`. -/
def date_iff_grammar_statement : Prop :=
  ∀ s : Str, fmtDate (.str s) = .ret true ↔ Spec.isFullDate s

/-- `is_date` accepts exactly the RFC 3339 full-dates whose year is not 0000
    (explicit guard `1 ≤ y`: Python's `datetime.MINYEAR` is 1). -/
theorem date_iff_grammar_partial (s : Str) :
    fmtDate (.str s) = .ret true ↔
      ∃ y m d : Nat, 1 ≤ y ∧ y ≤ 9999 ∧ 1 ≤ m ∧ m ≤ 12 ∧ 1 ≤ d ∧ d ≤ Spec.daysInMonth y m ∧
        s = Spec.pad 4 y ++ ['-'] ++ Spec.pad 2 m ++ ['-'] ++ Spec.pad 2 d := by
  exact Fmt.fmtDate_iff s

/-- Known finding: the RFC 3339 full-date `0000-01-01` is not accepted (`date.fromisoformat`
    raises `ValueError: year 0 is out of range`). -/
theorem date_counterexample_year0 :
    fmtDate (.str "0000-01-01".toList) ≠ .ret true ∧ Spec.isFullDate "0000-01-01".toList := by
  refine ⟨by decide +kernel, 0, 1, 1, by decide, by decide, by decide, by decide, by decide, by decide +kernel⟩

theorem date_iff_grammar_counterexample : ¬ date_iff_grammar_statement := by
  intro h
  exact date_counterexample_year0.1 ((h _).mpr date_counterexample_year0.2)

/-- `is_date` never raises anything but `ValueError`, and a string that does not have the shape
    `[0-9]{4}-[0-9]{2}-[0-9]{2}` is answered `False` without any exception. -/
theorem date_total (s : Str) :
    (∃ b, fmtDate (.str s) = .ret b) ∨
      fmtDate (.str s) = .raise ["ValueError", "Exception", "BaseException", "object"] := by
  exact Fmt.fmtDate_cases s

/-! ### email -/

/-- `is_email` accepts exactly the strings containing an `@`. -/
theorem email_iff_at (s : Str) : fmtEmail (.str s) = .ret (s.contains '@') := by
  rfl

/-! ### non-strings, exceptions -/

/-- Every modelled format function ignores non-strings (returns `True`). -/
theorem builtin_ignores_nonstrings (f : FmtFn) (j : Json) (h : j.isStr = false) (r : FmtRes)
    (hr : builtinImpl.run f j = some r) : r = .ret true := by
  exact Fmt.builtin_nonstring f j h r hr

/-- For every instance each modelled function either returns or raises an exception whose MRO
    contains the class it is registered with (`raises=…`): `AddressValueError` for ipv4/ipv6,
    `ValueError` for date; `is_email` never raises. -/
theorem builtin_raises_only_listed (f : FmtFn) (j : Json) (r : FmtRes)
    (hr : builtinImpl.run f j = some r) :
    (∃ b, r = .ret b) ∨ ∃ c mro, Fmt.listedRaises f = some c ∧ r = .raise mro ∧ c ∈ mro := by
  exact Fmt.builtin_result f j r hr

example : Fmt.listedRaises .ipv4 = some "AddressValueError" ∧ Fmt.listedRaises .ipv6 = some "AddressValueError"
    ∧ Fmt.listedRaises .date = some "ValueError" ∧ Fmt.listedRaises .email = none := by decide

/-- `FormatChecker.check(instance, format)` with the generated registration tables of any draft
    (and the class-level table): for a format backed by a modelled function the call returns or
    raises `FormatError` (`.ok _`); no other exception escapes, whatever the instance. -/
theorem check_raises_only_FormatError (env : Env) (fc : FormatChecker) (hfc : fc ∈ Fmt.builtinTables)
    (inst : Json) (name : Str) (e : FmtEntry) (he : fc.find name = some e) (hm : e.fn ≠ .oracle) :
    ∃ r, fmtCheck env builtinImpl fc inst name = .ok r := by
  exact Fmt.fmtCheck_ok env fc (Fmt.tables_entryOk fc hfc) inst name e he hm

/-! ### sanity tests and non-vacuity -/

example : fmtIpv4 (.str "192.168.0.1".toList) = .ret true := by decide +kernel
example : fmtIpv4 (.str "255.255.255.255".toList) = .ret true := by decide +kernel
example : fmtIpv4 (.str "256.1.1.1".toList) = .raise addrValueErrorMro := by decide +kernel
example : fmtIpv4 (.str "01.2.3.4".toList) = .raise addrValueErrorMro := by decide +kernel
example : fmtIpv4 (.str "1.2.3".toList) = .raise addrValueErrorMro := by decide +kernel
example : fmtIpv4 (.str "1.2.3.4/8".toList) = .raise addrValueErrorMro := by decide +kernel
example : fmtIpv4 (.str "1.2.3.٤".toList) = .raise addrValueErrorMro := by decide +kernel
example : fmtIpv4 (.num (.int 5)) = .ret true := by decide +kernel
example : Spec.isIpv4Text "10.0.0.255".toList := ⟨10, 0, 0, 255, by decide +kernel⟩
example : fmtIpv6 (.str "::".toList) = .ret true := by decide +kernel
example : fmtIpv6 (.str "::1".toList) = .ret true := by decide +kernel
example : fmtIpv6 (.str "1::".toList) = .ret true := by decide +kernel
example : fmtIpv6 (.str "2001:db8::8:800:200C:417A".toList) = .ret true := by decide +kernel
example : fmtIpv6 (.str "1:2:3:4:5:6:7:8".toList) = .ret true := by decide +kernel
example : fmtIpv6 (.str "1:2:3:4:5:6:7::".toList) = .ret true := by decide +kernel
example : fmtIpv6 (.str "::ffff:129.144.52.38".toList) = .ret true := by decide +kernel
example : fmtIpv6 (.str "1:2:3:4:5:6:1.2.3.4".toList) = .ret true := by decide +kernel
example : fmtIpv6 (.str "1:2:3:4:5:6:7::8".toList) = .raise addrValueErrorMro := by decide +kernel
example : fmtIpv6 (.str "1:2:3:4:5:6:7:1.2.3.4".toList) = .raise addrValueErrorMro := by decide +kernel
example : fmtIpv6 (.str "1::2::3".toList) = .raise addrValueErrorMro := by decide +kernel
example : fmtIpv6 (.str ":::".toList) = .raise addrValueErrorMro := by decide +kernel
example : fmtIpv6 (.str "12345::".toList) = .raise addrValueErrorMro := by decide +kernel
example : fmtIpv6 (.str "::1.2.3.256".toList) = .raise addrValueErrorMro := by decide +kernel
example : fmtIpv6 (.str "::1/64".toList) = .raise addrValueErrorMro := by decide +kernel
example : fmtIpv6 (.str "::1%".toList) = .raise addrValueErrorMro := by decide +kernel
example : fmtIpv6 (.str "::1%eth0".toList) = .ret false := by decide +kernel
example : fmtIpv6 (.str "zz%eth0".toList) = .raise addrValueErrorMro := by decide +kernel
example : fmtIpv6 .null = .ret true := by decide +kernel
example : Spec.isIpv6Text "::1".toList :=
  .inr ⟨[], ["1".toList], none, by simp, by intro g hg; simp at hg; subst hg; unfold Spec.isHexGroup; decide,
    by simp, by decide, by decide⟩
example : Spec.isIpv6Text "1:2:3:4:5:6:7:8".toList := (ipv6_iff_grammar _).mp (by decide +kernel)
example : Spec.isIpv6Text "::ffff:129.144.52.38".toList := (ipv6_iff_grammar _).mp (by decide +kernel)
example : ¬ Spec.isIpv6Text "1:2:3:4:5:6:7::8".toList :=
  fun h => absurd ((ipv6_iff_grammar _).mpr h) (by decide +kernel)
example : ¬ Spec.isIpv4Text "1.2.3.04".toList :=
  fun h => absurd ((ipv4_iff_grammar _).mpr h) (by decide +kernel)
example : fmtDate (.str "2024-02-29".toList) = .ret true := by decide +kernel
example : fmtDate (.str "2023-02-29".toList) = .raise valueErrorMro := by decide +kernel
example : fmtDate (.str "1900-02-29".toList) = .raise valueErrorMro := by decide +kernel
example : fmtDate (.str "2000-02-29".toList) = .ret true := by decide +kernel
example : fmtDate (.str "2020-13-01".toList) = .raise valueErrorMro := by decide +kernel
example : fmtDate (.str "2020-1-1".toList) = .ret false := by decide +kernel
example : fmtDate (.str "２020-01-01".toList) = .ret false := by decide +kernel
example : Spec.isFullDate "2024-02-29".toList :=
  ⟨2024, 2, 29, by decide, by decide, by decide, by decide, by decide, by decide +kernel⟩
example : fmtEmail (.str "a@b".toList) = .ret true := by decide +kernel
example : fmtEmail (.str "ab".toList) = .ret false := by decide +kernel
example : (match fmtCheck default builtinImpl Generated.d7Formats (.str "1.2.3".toList) "ipv4".toList with
    | .ok (some (some "AddressValueError")) => true | _ => false) = true := by decide +kernel
example : (match fmtCheck default builtinImpl Generated.d7Formats (.str "2020-1-1".toList) "date".toList with
    | .ok (some none) => true | _ => false) = true := by decide +kernel

end JS.Props.C13
