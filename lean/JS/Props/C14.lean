/-
  C14 — JSON-Pointer fragments resolve to exactly the addressed value, or fail cleanly.
  Property theorems only; helper lemmas live in JS/Proofs/Pointer.lean.
  Model: `resolveFragment` (JS.Pointer). Specification: JS.Spec.Pointer.
-/
import JS.Proofs.Pointer
namespace JS.Props.C14
open JS

/-- **Both halves at once.** For every document, every pointer (list of reference tokens, whatever
    characters they contain) and every percent-encoder, resolving the fragment gives exactly what
    RFC 6901 evaluation gives: the addressed value, or failure (`RefResolutionError`) when the
    pointer addresses nothing — never some other value. -/
theorem resolve_eq_spec (keep : Char → Bool) (doc : Json) (toks : List Str) :
    resolveFragment doc (Spec.fragmentOf keep toks) = Spec.ptrEval doc toks := by
  exact PointerProofs.resolve_eq_spec keep doc toks

/-- positive half in terms of paths: every reachable location is found -/
theorem positive (keep : Char → Bool) (doc : Json) (path : List PathElem) (v : Json)
    (h : Spec.ptrGet doc path = some v) :
    resolveFragment doc (Spec.fragmentOf keep (path.map Spec.tokenOf)) = some v := by
  rw [resolve_eq_spec]; exact PointerProofs.ptrEval_of_ptrGet doc path v h

/-- the empty fragment is the whole document -/
theorem empty_fragment (doc : Json) : resolveFragment doc [] = some doc := by
  exact PointerProofs.empty_fragment doc

/-- negative half, in the property's own terms: a pointer whose first unresolvable token is a
    missing key, an out-of-range or non-canonical index, or any token applied to a scalar or
    string fails -/
theorem negative (keep : Char → Bool) (doc : Json) (pre : List Str) (tok : Str) (post : List Str)
    (d : Json) (hpre : Spec.ptrEval doc pre = some d) (hbad : Spec.ptrStep d tok = none) :
    resolveFragment doc (Spec.fragmentOf keep (pre ++ tok :: post)) = none := by
  rw [resolve_eq_spec]; exact PointerProofs.ptrEval_bad doc pre tok post d hpre hbad

/-- what "addresses nothing" means at an array: the token is not the canonical decimal of an
    in-range index (so `-1`, `01`, `+1`, ` 1`, `1_0`, `1.0`, `-`, non-ASCII digits all fail) -/
theorem array_token_spec (xs : List Json) (tok : Str) (v : Json) :
    Spec.ptrStep (.arr xs) tok = some v ↔ ∃ n, n < xs.length ∧ tok = Spec.decimal n ∧ xs[n]? = some v := by
  exact PointerProofs.array_token_spec xs tok v

/-- scalars and strings are never indexed -/
theorem scalar_token_spec (doc : Json) (tok : Str) (h : doc.isObj = false) (h' : doc.isArr = false) :
    Spec.ptrStep doc tok = none := by
  exact PointerProofs.scalar_token_spec doc tok h h'

/-- RFC 6901 unescaping inverts escaping (the order of the two replacements matters) -/
theorem unescape_escape (k : Str) : unescapeToken (Spec.escapeToken k) = k := by
  exact PointerProofs.unescape_escape k

/-- percent-decoding inverts percent-encoding, for every encoder -/
theorem unquote_pctEncode (keep : Char → Bool) (s : Str) : unquote (Spec.pctEncode keep s) = s := by
  exact PointerProofs.unquote_pctEncode keep s

/-! tests (not the claim) -/
example : resolveFragment (.obj [("".toList, .num (.int 5))]) "/".toList = some (.num (.int 5)) := by decide +kernel
example : resolveFragment (.arr [.null, .bool true]) "/01".toList = none := by decide +kernel
example : resolveFragment (.arr [.null, .bool true]) "/1".toList = some (.bool true) := by decide +kernel
example : unescapeToken "~01".toList = "~1".toList := by decide +kernel
example : resolveFragment (.obj [("a".toList, .str "xyz".toList)]) "/a/0".toList = none := by decide +kernel

end JS.Props.C14
