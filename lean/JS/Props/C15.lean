/-
  C15 — reference retrieval and caching are transparent, frugal and offline-safe.
  Property theorems only; helper lemmas live in JS/Proofs/Store.lean.
  Model: `resolve`, `resolveFromUrl`, `resolveRemote`, `memoLookup/Insert` (JS.Resolver), `eval`,
  `runHist`/`stepOp` (JS.History). Retrieval itself is the oracle `env.fetch n uri` (the `n`-th
  retrieval attempt of this resolver), so every statement holds for handlers that succeed, fail
  once, or fail always.
-/
import JS.Proofs.Store
namespace JS.Props.C15
open JS

variable (env : Env) (impl : FmtImpl) (cfg : Cfg) (fuel : Nat)

/-- With remote caching off the store gains no entries, whatever is validated or resolved. -/
theorem store_unchanged_when_off (inst schema : Json) (b : Option Nat) (st : RState)
    (h : st.cacheRemote = false) :
    (eval env impl cfg fuel inst schema b st).st.store = st.store
    ∧ (eval env impl cfg fuel inst schema b st).st.cacheRemote = false :=
  pres_eval (rOff env) impl cfg fuel inst schema b st h

/-- The same for whole histories of operations on one validator. -/
theorem store_unchanged_when_off_hist (schema : Json) (st : RState) (ops : List Op)
    (h : st.cacheRemote = false) :
    (runHist env impl cfg fuel schema st ops).2.store = st.store :=
  (pres_runHist (rOff env) impl cfg fuel schema ops st h).1

/-- Documents already in the store stay there, unchanged (the store only grows). -/
theorem store_grows_only (inst schema : Json) (b : Option Nat) (st : RState) (k : Str) (v : Json)
    (h : Json.lookup k st.store = some v) :
    Json.lookup k (eval env impl cfg fuel inst schema b st).st.store = some v :=
  pres_eval (rGrow env) impl cfg fuel inst schema b st k v h

/-- The retrieval log only grows, the attempt counter counts it, and `cache_remote`/the memo
    capacity never change. -/
theorem log_grows_only (inst schema : Json) (b : Option Nat) (st : RState) :
    ∃ l, (eval env impl cfg fuel inst schema b st).st.fetchLog = st.fetchLog ++ l
      ∧ (eval env impl cfg fuel inst schema b st).st.clock = st.clock + l.length
      ∧ (eval env impl cfg fuel inst schema b st).st.cacheRemote = st.cacheRemote
      ∧ (eval env impl cfg fuel inst schema b st).st.memoCap = st.memoCap :=
  pres_eval (rLog env) impl cfg fuel inst schema b st

/-- the invariant behind "fetched at most once": with caching on, every successfully retrieved
    URI is in the store under its normalised key, and no two successful retrievals share a key -/
def FetchInv (env : Env) (st : RState) : Prop :=
  (∀ u, (u, true) ∈ st.fetchLog → ∃ k, env.urinorm u = some k ∧ (Json.lookup k st.store).isSome = true)
  ∧ ((st.fetchLog.filter (·.2)).map (fun p => env.urinorm p.1)).Nodup

/-- With caching on, each external document is fetched successfully at most once per resolver,
    no matter how many references, fragments, instances or validations use it: `FetchInv` is an
    invariant of every evaluation … -/
theorem fetch_inv_preserved (inst schema : Json) (b : Option Nat) (st : RState)
    (hc : st.cacheRemote = true) (hinv : FetchInv env st) :
    FetchInv env (eval env impl cfg fuel inst schema b st).st :=
  (pres_eval (rInv env) impl cfg fuel inst schema b st hc hinv).1

/-- … and of every history of operations, starting from a fresh resolver. -/
theorem fetch_at_most_once (schema : Json) (st : RState) (ops : List Op)
    (hc : st.cacheRemote = true) (hfresh : st.fetchLog = []) :
    ((( runHist env impl cfg fuel schema st ops).2.fetchLog.filter (·.2)).map (fun p => env.urinorm p.1)).Nodup :=
  (pres_runHist (rInv env) impl cfg fuel schema ops st hc (fetchInvS_fresh env st hfresh)).1.2

/-- A document present in the store (under the normalised URI) is served locally: resolving any
    URL into it performs no retrieval. -/
theorem served_locally (url u frag k : Str) (st : RState) (doc : Json)
    (hd : env.urldefrag url = some (u, frag)) (hn : env.urinorm u = some k)
    (hs : Json.lookup k st.store = some doc) :
    (resolveFromUrl env url st).2 = st ∧ (resolveFromUrl env url st).1 = fragRes doc frag := by
  unfold resolveFromUrl
  simp only [hd, hn, hs, and_self]

/-- Any failure of a handler surfaces as `RefResolutionError`, and a failed retrieval caches nothing. -/
theorem handler_failure_is_refResolution (url u frag k : Str) (st : RState)
    (hd : env.urldefrag url = some (u, frag)) (hn : env.urinorm u = some k)
    (hs : Json.lookup k st.store = none) (hf : env.fetch st.clock u = some none) :
    (resolveFromUrl env url st).1 = .raise .refResolution
    ∧ (resolveFromUrl env url st).2.store = st.store
    ∧ (resolveFromUrl env url st).2.memo = st.memo := by
  unfold resolveFromUrl resolveRemote
  simp only [hd, hn, hs, hf, and_self]

/-- Exceptions are not memoised: after a failing `resolve` the memo is unchanged. -/
theorem failure_not_memoised (ref : Str) (st : RState) (e : Exc)
    (h : (resolve env ref st).1 = .raise e) :
    (resolve env ref st).2.memo = st.memo :=
  resolve_raise_memo env ref st e h

end JS.Props.C15
