/-
  C15 — reference retrieval and caching are transparent, frugal and offline-safe.
  Property theorems only; helper lemmas live in JS/Proofs/Store.lean.
  Model: `resolve`, `resolveFromUrl`, `resolveRemote`, `memoLookup/Insert` (JS.Resolver), `eval`,
  `runHist`/`stepOp` (JS.History). Retrieval itself is the oracle `env.fetch n uri` (the `n`-th
  retrieval attempt of this resolver), so every statement holds for handlers that succeed, fail
  once, or fail always.
-/
import JS.Proofs.Store
import JS.Proofs.Knowledge
namespace JS.Props.C15
open JS

variable (env : Env) (impl : FmtImpl) (cfg : Cfg) (fuel : Nat)

/-- With remote caching off the store gains no entries, whatever is validated or resolved. -/
theorem store_unchanged_when_off (inst schema : Json) (b : Option Nat) (st : RState)
    (h : st.cacheRemote = false) :
    (eval env impl cfg fuel inst schema b st).st.store = st.store
    ∧ (eval env impl cfg fuel inst schema b st).st.cacheRemote = false :=
  pres_eval (rOff env) impl cfg fuel inst schema b st h

/-- The same for whole histories of operations on one validator. -/
theorem store_unchanged_when_off_hist (schema : Json) (st : RState) (ops : List Op)
    (h : st.cacheRemote = false) :
    (runHist env impl cfg fuel schema st ops).2.store = st.store :=
  (pres_runHist (rOff env) impl cfg fuel schema ops st h).1

/-- Documents already in the store stay there, unchanged (the store only grows). -/
theorem store_grows_only (inst schema : Json) (b : Option Nat) (st : RState) (k : Str) (v : Json)
    (h : Json.lookup k st.store = some v) :
    Json.lookup k (eval env impl cfg fuel inst schema b st).st.store = some v :=
  pres_eval (rGrow env) impl cfg fuel inst schema b st k v h

/-- The retrieval log only grows, the attempt counter counts it, and `cache_remote`/the memo
    capacity never change. -/
theorem log_grows_only (inst schema : Json) (b : Option Nat) (st : RState) :
    ∃ l, (eval env impl cfg fuel inst schema b st).st.fetchLog = st.fetchLog ++ l
      ∧ (eval env impl cfg fuel inst schema b st).st.clock = st.clock + l.length
      ∧ (eval env impl cfg fuel inst schema b st).st.cacheRemote = st.cacheRemote
      ∧ (eval env impl cfg fuel inst schema b st).st.memoCap = st.memoCap :=
  pres_eval (rLog env) impl cfg fuel inst schema b st

/-- the invariant behind "fetched at most once": with caching on, every successfully retrieved
    URI is in the store under its normalised key, and no two successful retrievals share a key -/
def FetchInv (env : Env) (st : RState) : Prop :=
  (∀ u, (u, true) ∈ st.fetchLog → ∃ k, env.urinorm u = some k ∧ (Json.lookup k st.store).isSome = true)
  ∧ ((st.fetchLog.filter (·.2)).map (fun p => env.urinorm p.1)).Nodup

/-- With caching on, each external document is fetched successfully at most once per resolver,
    no matter how many references, fragments, instances or validations use it: `FetchInv` is an
    invariant of every evaluation … -/
theorem fetch_inv_preserved (inst schema : Json) (b : Option Nat) (st : RState)
    (hc : st.cacheRemote = true) (hinv : FetchInv env st) :
    FetchInv env (eval env impl cfg fuel inst schema b st).st :=
  (pres_eval (rInv env) impl cfg fuel inst schema b st hc hinv).1

/-- … and of every history of operations, starting from a fresh resolver. -/
theorem fetch_at_most_once (schema : Json) (st : RState) (ops : List Op)
    (hc : st.cacheRemote = true) (hfresh : st.fetchLog = []) :
    ((( runHist env impl cfg fuel schema st ops).2.fetchLog.filter (·.2)).map (fun p => env.urinorm p.1)).Nodup :=
  (pres_runHist (rInv env) impl cfg fuel schema ops st hc (fetchInvS_fresh env st hfresh)).1.2

/-- A document present in the store (under the normalised URI) is served locally: resolving any
    URL into it performs no retrieval. -/
theorem served_locally (url u frag k : Str) (st : RState) (doc : Json)
    (hd : env.urldefrag url = some (u, frag)) (hn : env.urinorm u = some k)
    (hs : Json.lookup k st.store = some doc) :
    (resolveFromUrl env url st).2 = st ∧ (resolveFromUrl env url st).1 = fragRes doc frag := by
  unfold resolveFromUrl
  simp only [hd, hn, hs, and_self]

/-- Any failure of a handler surfaces as `RefResolutionError`, and a failed retrieval caches nothing. -/
theorem handler_failure_is_refResolution (url u frag k : Str) (st : RState)
    (hd : env.urldefrag url = some (u, frag)) (hn : env.urinorm u = some k)
    (hs : Json.lookup k st.store = none) (hf : env.fetch st.clock u = some none) :
    (resolveFromUrl env url st).1 = .raise .refResolution
    ∧ (resolveFromUrl env url st).2.store = st.store
    ∧ (resolveFromUrl env url st).2.memo = st.memo := by
  unfold resolveFromUrl resolveRemote
  simp only [hd, hn, hs, hf, and_self]

/-- Exceptions are not memoised: after a failing `resolve` the memo is unchanged. -/
theorem failure_not_memoised (ref : Str) (st : RState) (e : Exc)
    (h : (resolve env ref st).1 = .raise e) :
    (resolve env ref st).2.memo = st.memo :=
  resolve_raise_memo env ref st e h

/-! ### Knowledge is transparent (cache transparency, C15; history independence, C07)

A resolver that "knows more" — has more documents in its store, any memo whatsoever that is backed
by documents, either setting of `cache_remote`, any memo capacity — gives the same errors and the
same way of stopping as one that knows less, provided retrieval is stable: a URI always yields the
same outcome (success with one fixed document, or failure), the same for URIs that normalise alike
(A-handlers). -/

/-- retrieval is stable: independent of the attempt number, and of the spelling up to normalisation -/
def StableFetch (env : Env) : Prop :=
  (∀ n m u, env.fetch n u = env.fetch m u)
  ∧ (∀ n u u' k, env.urinorm u = some k → env.urinorm u' = some k → env.fetch n u = env.fetch n u')

/-- every document `st` has under a key is what retrieval of a URI with that key yields, or was
    supplied by the caller (`base` store) -/
def StoreFaithful (env : Env) (base : List (Str × Json)) (st : RState) : Prop :=
  ∀ k v, Json.lookup k st.store = some v →
    Json.lookup k base = some v ∨ (Json.lookup k base = none ∧ ∃ u, env.urinorm u = some k ∧ env.fetch 0 u = some (some v))

/-- each memo entry is the fragment of a document the store holds or retrieval yields -/
def MemoFaithful (env : Env) (base : List (Str × Json)) (st : RState) : Prop :=
  ∀ url v, Json.lookup url st.memo = some v →
    ∃ u frag k doc, env.urldefrag url = some (u, frag) ∧ env.urinorm u = some k ∧ resolveFragment doc frag = some v
      ∧ (Json.lookup k base = some doc ∨ (Json.lookup k base = none ∧ env.fetch 0 u = some (some doc)))

/-- two resolver states over the same caller-supplied store `base` that differ only in what they
    have learnt so far (store growth, memo contents and capacity, `cache_remote`, clock, log) -/
structure SameWorld (env : Env) (base : List (Str × Json)) (st st' : RState) : Prop where
  scopes : st.scopes = st'.scopes
  base₁ : ∀ k v, Json.lookup k base = some v → Json.lookup k st.store = some v
  base₂ : ∀ k v, Json.lookup k base = some v → Json.lookup k st'.store = some v
  store₁ : StoreFaithful env base st
  store₂ : StoreFaithful env base st'
  memo₁ : MemoFaithful env base st
  memo₂ : MemoFaithful env base st'

/-- the oracle answers every retrieval query (with success or failure): `Stop.miss (.fetch n u)`,
    the driver artefact "the oracle table lacks an answer", cannot occur -/
def FetchAnswered (env : Env) : Prop := ∀ n u, env.fetch n u ≠ none

/-- the same way of stopping, or on both sides the oracle's "no answer" for a retrieval of the same
    URI (where the model reports the resolver's own attempt counter, which knowledge changes) -/
def SameStop (env : Env) (s s' : Stop) : Prop :=
  s = s' ∨ ∃ n m u, s = .miss (.fetch n u) ∧ s' = .miss (.fetch m u) ∧ env.fetch 0 u = none

theorem sameWorld_iff {env : Env} {base : List (Str × Json)} {st st' : RState} :
    SameWorld env base st st' ↔ Knowledge.SameWorldS env base st st' :=
  ⟨fun h => ⟨h.scopes, ⟨h.base₁, h.store₁, h.memo₁⟩, ⟨h.base₂, h.store₂, h.memo₂⟩⟩,
   fun h => ⟨h.scopes, h.left.holds, h.right.holds, h.left.store, h.right.store, h.left.memo, h.right.memo⟩⟩

/-- **Knowledge is transparent** — the statement as first given. It is FALSE
    (`knowledge_transparent_counterexample`): when the oracle has no answer for a retrieval, the
    model stops with `Stop.miss (.fetch n u)` where `n` is the resolver's attempt counter, and
    `SameWorld` (rightly) does not relate the counters. Everything else holds: see
    `knowledge_transparent_upto` (no extra hypothesis, stops equal up to that counter) and
    `knowledge_transparent_partial` (oracle answers every retrieval, conclusion as given). -/
def knowledge_transparent_statement : Prop :=
  ∀ (env : Env) (_ : StableFetch env) (impl : FmtImpl) (cfg : Cfg) (fuel : Nat)
    (base : List (Str × Json)) (i s : Json) (b : Option Nat) (st st' : RState)
    (_ : SameWorld env base st st'),
    (eval env impl cfg fuel i s b st).errs = (eval env impl cfg fuel i s b st').errs
    ∧ (eval env impl cfg fuel i s b st).stop = (eval env impl cfg fuel i s b st').stop
    ∧ SameWorld env base (eval env impl cfg fuel i s b st).st (eval env impl cfg fuel i s b st').st

/-- two fresh resolvers that differ in the attempt counter only, a reference the oracle cannot answer -/
theorem knowledge_transparent_counterexample : ¬ knowledge_transparent_statement := by
  intro h
  have h1 := (h Knowledge.Cex.env Knowledge.Cex.stable Knowledge.Cex.impl Knowledge.Cex.cfg 1 [] .null
    (Knowledge.Cex.refTo ['b']) none (Knowledge.Cex.st true 0) (Knowledge.Cex.st true 1)
    (sameWorld_iff.2 (Knowledge.Cex.sameWorld ..))).2.1
  have h2 := congrArg Knowledge.Cex.missClock h1
  rw [Knowledge.Cex.kt_left, Knowledge.Cex.kt_right] at h2
  cases h2

/-- **Knowledge is transparent**, without any assumption on the oracle's coverage: same errors, the
    same way of stopping up to the attempt number inside an oracle miss, related states. -/
theorem knowledge_transparent_upto (env : Env) (hf : StableFetch env) (impl : FmtImpl) (cfg : Cfg) (fuel : Nat)
    (base : List (Str × Json)) (i s : Json) (b : Option Nat) (st st' : RState)
    (h : SameWorld env base st st') :
    (eval env impl cfg fuel i s b st).errs = (eval env impl cfg fuel i s b st').errs
    ∧ SameStop env (eval env impl cfg fuel i s b st).stop (eval env impl cfg fuel i s b st').stop
    ∧ SameWorld env base (eval env impl cfg fuel i s b st).st (eval env impl cfg fuel i s b st').st := by
  obtain ⟨h1, h2, h3⟩ := Knowledge.eval_sim hf impl cfg fuel i s b (sameWorld_iff.1 h)
  exact ⟨h1, h2, sameWorld_iff.2 h3⟩

/-- **Knowledge is transparent.** (conclusion as given; extra hypothesis `hans`) -/
theorem knowledge_transparent_partial (env : Env) (hf : StableFetch env) (hans : FetchAnswered env)
    (impl : FmtImpl) (cfg : Cfg) (fuel : Nat)
    (base : List (Str × Json)) (i s : Json) (b : Option Nat) (st st' : RState)
    (h : SameWorld env base st st') :
    (eval env impl cfg fuel i s b st).errs = (eval env impl cfg fuel i s b st').errs
    ∧ (eval env impl cfg fuel i s b st).stop = (eval env impl cfg fuel i s b st').stop
    ∧ SameWorld env base (eval env impl cfg fuel i s b st).st (eval env impl cfg fuel i s b st').st := by
  obtain ⟨h1, h2, h3⟩ := Knowledge.eval_sim_eq hf hans impl cfg fuel i s b (sameWorld_iff.1 h)
  exact ⟨h1, h2, sameWorld_iff.2 h3⟩

/-- a resolver and the same resolver with another `cache_remote`, memo capacity and an empty memo
    live in the same world -/
theorem sameWorld_reconfigured {env : Env} {st : RState} (cr : Bool) (cap : Option Nat)
    (hst : SameWorld env st.store st st) :
    SameWorld env st.store st { st with cacheRemote := cr, memoCap := cap, memo := [] } :=
  ⟨rfl, hst.base₁, hst.base₁, hst.store₁, hst.store₁, hst.memo₁, fun _ _ h => nomatch h⟩

/-- C15 cache transparency — the statement as first given. FALSE for the same reason as
    `knowledge_transparent_statement` (`cache_transparent_counterexample`). -/
def cache_transparent_statement : Prop :=
  ∀ (env : Env) (_ : StableFetch env) (impl : FmtImpl) (cfg : Cfg) (fuel : Nat)
    (i s : Json) (b : Option Nat) (st : RState) (cr : Bool) (cap : Option Nat)
    (_ : SameWorld env st.store st st),
    (eval env impl cfg fuel i s b st).errs
        = (eval env impl cfg fuel i s b { st with cacheRemote := cr, memoCap := cap, memo := [] }).errs
    ∧ (eval env impl cfg fuel i s b st).stop
        = (eval env impl cfg fuel i s b { st with cacheRemote := cr, memoCap := cap, memo := [] }).stop

/-- `allOf` of references to `a`, `a#` and `b`: with `cache_remote` on, `a` is retrieved once, with
    it off twice, so the unanswered retrieval of `b` is attempt 1 resp. 2 -/
theorem cache_transparent_counterexample : ¬ cache_transparent_statement := by
  intro h
  have h1 := (h Knowledge.Cex.env Knowledge.Cex.stable Knowledge.Cex.impl Knowledge.Cex.cfg 3 .null
    Knowledge.Cex.three none (Knowledge.Cex.st true 0) false none
    (sameWorld_iff.2 (Knowledge.Cex.sameWorld ..))).2
  have h2 := congrArg Knowledge.Cex.missClock h1
  rw [Knowledge.Cex.ct_left, Knowledge.Cex.ct_right] at h2
  cases h2

/-- C15: errors are identical, and the way of stopping up to the attempt number inside an oracle
    miss, whether remote caching is on or off and whichever cache functions are supplied -/
theorem cache_transparent_upto (env : Env) (hf : StableFetch env) (impl : FmtImpl) (cfg : Cfg) (fuel : Nat)
    (i s : Json) (b : Option Nat) (st : RState) (cr : Bool) (cap : Option Nat)
    (hst : SameWorld env st.store st st) :
    (eval env impl cfg fuel i s b st).errs
        = (eval env impl cfg fuel i s b { st with cacheRemote := cr, memoCap := cap, memo := [] }).errs
    ∧ SameStop env (eval env impl cfg fuel i s b st).stop
        (eval env impl cfg fuel i s b { st with cacheRemote := cr, memoCap := cap, memo := [] }).stop := by
  obtain ⟨h1, h2, _⟩ := knowledge_transparent_upto env hf impl cfg fuel st.store i s b st _
    (sameWorld_reconfigured cr cap hst)
  exact ⟨h1, h2⟩

/-- C15: verdicts and errors are identical whether remote caching is on or off and whichever cache
    functions (memo capacity, initial memo) are supplied (conclusion as given; extra hypothesis `hans`) -/
theorem cache_transparent_partial (env : Env) (hf : StableFetch env) (hans : FetchAnswered env)
    (impl : FmtImpl) (cfg : Cfg) (fuel : Nat)
    (i s : Json) (b : Option Nat) (st : RState) (cr : Bool) (cap : Option Nat)
    (hst : SameWorld env st.store st st) :
    (eval env impl cfg fuel i s b st).errs
        = (eval env impl cfg fuel i s b { st with cacheRemote := cr, memoCap := cap, memo := [] }).errs
    ∧ (eval env impl cfg fuel i s b st).stop
        = (eval env impl cfg fuel i s b { st with cacheRemote := cr, memoCap := cap, memo := [] }).stop := by
  obtain ⟨h1, h2, _⟩ := knowledge_transparent_partial env hf hans impl cfg fuel st.store i s b st _
    (sameWorld_reconfigured cr cap hst)
  exact ⟨h1, h2⟩

/-- non-vacuity: a freshly built resolver (empty memo) is in the same world as itself, whatever its
    store, so `cache_transparent_*` apply to every fresh validator -/
theorem sameWorld_fresh (env : Env) (st : RState) (h : st.memo = []) : SameWorld env st.store st st :=
  ⟨rfl, fun _ _ h => h, fun _ _ h => h, fun _ _ h => .inl h, fun _ _ h => .inl h,
   fun _ _ hm => by rw [h] at hm; simp [Json.lookup] at hm, fun _ _ hm => by rw [h] at hm; simp [Json.lookup] at hm⟩

end JS.Props.C15
