/-
  C16 — derivation never disturbs originals.
  Property theorems only; helper lemmas live in JS/Proofs/Derive.lean.
  Model: JS.Derive — a heap of cells (type checkers, Python dicts, validator classes, format
  checkers, validator instances), `step : World → DOp → World × DResult` for the derivation
  operations, `probe : World → Addr → Query → Answer` for the behavioural probes, which read the
  heap by following addresses.  `WF` (JS/Proofs/Derive.lean) is the heap invariant: references are
  well-kinded and every dict that is an attribute of an object carries that object's address.

  In-place updates that the code really performs — and the property allows — are: `fc.checks`
  (the instance's own dict), `FormatChecker.cls_checks` (the class-level dict), and the caller
  updating a dict of its own (`userSet`).  `MutatedBy h op x` names that one cell; `op.touches`
  names the object through which it is reached; `footprint h a` lists the cells a probe of `a` reads.
-/
import JS.Proofs.Derive
namespace JS.Props.C16
open JS JS.Derive

variable (env : Env) (impl : FmtImpl) (fuel : Nat)

/-! ### the invariant is real -/

/-- the heap after `import jsonschema` satisfies the invariant, and every operation preserves it -/
theorem wf_initial : WF initial.heap := initial_WF

theorem wf_preserved (w : World) (ops : List DOp) (hwf : WF w.heap) : WF (run env w ops).heap :=
  run_WF env ops w hwf

/-! ### frame -/

/-- A step never changes an existing cell, except the one dict cell the operation updates in place:
    the instance's own dict for `checks`, the class-level registry for `cls_checks`, the caller's own
    dict for `userSet`; and that cell stays a dict of the same kind with the same owner. -/
theorem derive_frame (w : World) (hwf : WF w.heap) (op : DOp) (x : Addr) (hx : x < w.heap.length) :
    (step env w op).1.heap[x]? = w.heap[x]?
      ∨ (MutatedBy w.heap op x ∧ kindAt (step env w op).1.heap x = kindAt w.heap x) := by
  by_cases hs : ∃ c', (effect env w op).set = some (x, c')
  · obtain ⟨c', hs⟩ := hs
    exact .inr ⟨(step_set_mutated env w op hwf hs).1, step_kindAt env w op hwf hx⟩
  · refine .inl (applyEffect_old w _ hx ?_)
    intro d c' hd e; subst e; exact hs ⟨c', hd⟩

/-- non-vacuity: both alternatives occur on the world after `import jsonschema` -/
example : (step env initial (.extend 12 (.lit []) none none)).1.heap[12]? = initial.heap[12]? :=
  (derive_frame env initial wf_initial (.extend 12 (.lit []) none none) 12 (by decide)).resolve_right
    (fun h => h.1)
example : MutatedBy initial.heap (.checks 20 "x".toList (.const true) []) 19 := rfl

/-- the statement as first sketched: only `cls_checks` updates anything in place -/
def derive_frame_statement : Prop :=
  ∀ (env : Env) (w : World), WF w.heap → ∀ (op : DOp) (x : Addr), x < w.heap.length →
    (x ≠ clsRegistry ∨ op.isClsChecks = false) → (step env w op).1.heap[x]? = w.heap[x]?

/-- … holds for every operation except `checks` and `userSet`, whose in-place update of the
    instance's / the caller's own dict is the documented behaviour -/
theorem derive_frame_partial (w : World) (hwf : WF w.heap) (op : DOp) (x : Addr) (hx : x < w.heap.length)
    (hop : op.touches = none ∨ op.isClsChecks = true) (h : x ≠ clsRegistry ∨ op.isClsChecks = false) :
    (step env w op).1.heap[x]? = w.heap[x]? := by
  rcases derive_frame env w hwf op x hx with h1 | ⟨hm, _⟩
  · exact h1
  · exfalso
    cases op <;> simp [MutatedBy, DOp.touches, DOp.isClsChecks] at hm hop h
    exact h hm

/-- `draft7_format_checker.checks("x")(f)` updates `draft7_format_checker.checkers` (cell 19) -/
theorem derive_frame_counterexample : ¬ derive_frame_statement := by
  intro h
  have := h default initial wf_initial (.checks 20 "x".toList (.const true) []) 19 (by decide) (.inl (by decide))
  have := congrArg (fun c => match c with | some (Cell.fmtDict _ es) => es.length | _ => 0) this
  revert this
  decide +kernel

/-! ### existing objects answer as before -/

/-- For every sequence of operations, every object that existed before and every query that does
    not read module-level state: if no operation updates in place an object in the footprint of `a`
    (`a` itself, its class, its format checker, or — for a format dict — its owner), the answer is
    unchanged.  (Existing objects never point at new cells: `WF` makes the heap closed.) -/
theorem derive_preserves_probes (w : World) (hwf : WF w.heap) (ops : List DOp) (a : Addr)
    (ha : a < w.heap.length) (q : Derive.Query) (hq : q.readsRegistry = false)
    (hind : ∀ op ∈ ops, ∀ t, op.touches = some t → t ∉ footprint w.heap a) :
    probe env impl fuel (run env w ops) a q = probe env impl fuel w a q :=
  probe_congr env impl fuel (run_view env ops w hwf ha hind) hq

/-- non-vacuity: `draft3_format_checker` (14, its dict 13) while a class is extended, a format is
    registered on `draft7_format_checker` (20) and another one class-wide -/
example (q : Derive.Query) (hq : q.readsRegistry = false) :
    probe env impl fuel (run env initial
        [.extend 12 (.lit [("foo".toList, .never)]) none none,
         .checks 20 "custom1".toList (.const false) [],
         .clsChecks "custom2".toList (.const true) []]) 14 q = probe env impl fuel initial 14 q := by
  refine derive_preserves_probes env impl fuel initial wf_initial _ 14 (by decide) q hq ?_
  intro op hop t ht
  simp only [List.mem_cons, List.mem_nil_iff, or_false] at hop
  rcases hop with rfl | rfl | rfl <;> simp only [DOp.touches] at ht <;> cases ht <;> decide +kernel

/-- Type checkers and validator classes are out of reach of EVERY operation sequence: no side
    condition at all. -/
theorem derive_preserves_checkers_and_classes (w : World) (hwf : WF w.heap) (ops : List DOp) (a : Addr)
    (hk : kindAt w.heap a = some .tc ∨ kindAt w.heap a = some .cls) (q : Derive.Query) (hq : q.readsRegistry = false) :
    probe env impl fuel (run env w ops) a q = probe env impl fuel w a q :=
  probe_congr env impl fuel (run_view_obj env ops w hwf hk) hq

example : kindAt initial.heap 12 = some .cls := by decide +kernel
example : kindAt initial.heap 4 = some .tc := by decide +kernel

/-! #### probes that read module-level state (`cls(schema)` seeds its resolver from `meta_schemas`) -/

/-- the statement without the restriction to object-local queries -/
def derive_preserves_all_probes_statement : Prop :=
  ∀ (env : Env) (impl : FmtImpl) (fuel : Nat) (w : World), WF w.heap → ∀ (op : DOp) (a : Addr),
    a < w.heap.length → (∀ t, op.touches = some t → t ∉ footprint w.heap a) → ∀ q : Derive.Query,
    probe env impl fuel (step env w op).1 a q = probe env impl fuel w a q

/-- … is false: `create(meta_schema={"$id": <draft-07 id>, "type": "number"}, …, version="y")` re-points
    `meta_schemas[<draft-07 id>]`, after which `Draft7Validator({"$ref": <draft-07 id>}).is_valid(5)` is
    `True` (it was `False`: 5 is not a schema).  The class object is untouched; the registry is not. -/
theorem derive_preserves_all_probes_counterexample : ¬ derive_preserves_all_probes_statement := by
  intro h
  have := h env0 builtinImpl 10 initial wf_initial hijack 12 (by decide) (fun t ht => by cases ht) hijackQuery
  have := congrArg Answer.asBool this
  revert this
  decide +kernel

/-- … and holds for every operation that does not register a class (`version=None`) and is not
    `cls_checks`: then registry-reading probes (validation by a class, registry keys) are preserved too. -/
theorem derive_preserves_all_probes_partial (w : World) (hwf : WF w.heap)
    (hreg : ∀ p ∈ w.metaSchemas, p.2 < w.heap.length) (op : DOp)
    (hv : op.registers = false) (hcc : op.isClsChecks = false) (a : Addr) (ha : a < w.heap.length)
    (hind : ∀ t, op.touches = some t → t ∉ footprint w.heap a) (q : Derive.Query) :
    probe env impl fuel (step env w op).1 a q = probe env impl fuel w a q :=
  probe_congr_reg env impl fuel q (step_view env w op hwf ha (fun t _ ht _ => hind t ht))
    (step_regsOf env w op hwf hreg hv hcc)

example : (∀ p ∈ initial.metaSchemas, p.2 < initial.heap.length)
    ∧ (DOp.extend 12 (.lit [("foo".toList, .never)]) none none).registers = false := by
  constructor
  · decide +kernel
  · rfl

/-- Registering a format on one checker leaves every OTHER format checker (and every validator that
    does not use that checker) answering as before. -/
theorem checks_affects_that_checker_only (w : World) (hwf : WF w.heap) (fc a : Addr) (name : Str) (fn : FFn)
    (raises : List String) (ha : a < w.heap.length) (hne : fc ∉ footprint w.heap a)
    (q : Derive.Query) (hq : q.readsRegistry = false) :
    probe env impl fuel (step env w (.checks fc name fn raises)).1 a q = probe env impl fuel w a q :=
  probe_congr env impl fuel
    (step_view env w _ hwf ha (fun t _ ht _ => by cases ht; exact hne)) hq

example : (20 : Addr) ∉ footprint initial.heap 14 := by decide +kernel
example : (20 : Addr) ∈ footprint initial.heap 20 := by decide +kernel

/-! ### cls_checks -/

/-- `FormatChecker.cls_checks`: FormatChecker instances that exist already answer as before … -/
theorem clsChecks_affects_later_only (w : World) (hwf : WF w.heap) (name : Str) (fn : FFn) (raises : List String)
    (a d : Addr) (ha : w.heap[a]? = some (.formatChecker d)) (q : Derive.Query) (hq : q.readsRegistry = false) :
    probe env impl fuel (step env w (.clsChecks name fn raises)).1 a q = probe env impl fuel w a q := by
  refine probe_congr env impl fuel (step_view env w _ hwf (lt_of_get ha) ?_) hq
  intro t d' ht _ hmem
  cases ht
  have hkd : kindAt w.heap d = some (.fmt (some a)) := hwf.cells a _ ha
  unfold footprint fpFc at hmem
  rw [ha] at hmem
  simp at hmem
  rcases hmem with rfl | rfl
  · have := kindAt_of_get ha; rw [hwf.reg] at this; cases this
  · rw [hwf.reg] at hkd; cases hkd

example : initial.heap[14]? = some (.formatChecker 13) := rfl

/-- … and instances created afterwards know the new name, bound to the new function. -/
theorem clsChecks_seen_by_later (w : World) (hwf : WF w.heap) (name : Str) (fn : FFn) (raises : List String) :
    let w1 := (step env w (.clsChecks name fn raises)).1
    let r2 := step env w1 (.newFormatChecker none)
    ∃ es, r2.2 = .created (w1.heap.length + 1)
      ∧ view r2.1.heap (w1.heap.length + 1) = some (.fc es)
      ∧ fmtFind name es = some ⟨name, fn, raises⟩ := by
  intro w1 r2
  rcases clsChecks_step env w hwf name fn raises with ⟨es, h0, h1⟩
  have h0' : w1.heap[clsRegistry]? = some (.fmtDict none (fmtSet ⟨name, fn, raises⟩ es)) := by
    show (step env w (.clsChecks name fn raises)).1.heap[clsRegistry]? = _
    rw [h1]; exact List.getElem?_set_self (lt_of_get h0)
  rcases newFormatChecker_step env w1 h0' with ⟨hr, hh⟩
  refine ⟨fmtSet ⟨name, fn, raises⟩ es, hr, ?_, fmtFind_fmtSet ⟨name, fn, raises⟩ es⟩
  show view (step env w1 (.newFormatChecker none)).1.heap _ = _
  rw [hh]; exact viewFc_new _ _ _

example : ∃ es, view (step env (step env initial (.clsChecks "custom".toList (.const false) [])).1
      (.newFormatChecker none)).1.heap 22 = some (.fc es)
    ∧ fmtFind "custom".toList es = some ⟨"custom".toList, .const false, []⟩ := by
  rcases clsChecks_seen_by_later env initial wf_initial "custom".toList (.const false) [] with ⟨es, _, h2, h3⟩
  exact ⟨es, h2, h3⟩

/-! ### extend -/

/-- all queries but the one that asks how the type checker was supplied (`_CREATED_WITH_DEFAULT_TYPES`,
    a deprecation aid that `extend` recomputes) -/
def behavioural : Derive.Query → Prop
  | .createdWithDefaultTypes => False
  | _ => True

/-- A class obtained from `extend(c)` with no overrides and no type checker answers every probe as
    `c` does — keyword table, types, the id key, the metaschema, validation of every schema/instance
    (registry-reading probes included: both are asked in the same world). -/
theorem extend_nochange_same (w : World) (hwf : WF w.heap) (c : Addr) (version : Option Str) (a : Addr)
    (hr : (step env w (.extend c (.lit []) version none)).2 = .created a) (q : Derive.Query) (hq : behavioural q) :
    probe env impl fuel (step env w (.extend c (.lit []) version none)).1 a q
      = probe env impl fuel (step env w (.extend c (.lit []) version none)).1 c q := by
  rcases extend_created hwf hr with ⟨v, t, i, m, cw, kvs, ovs, cw', hc, hv, hov, ha, hh⟩
  rcases get_tc (hwf.cells c _ hc).2 with ⟨mt, ht⟩
  have hovs : ovs = [] := by simpa [kwArg, dictUpdate] using hov.symm
  subst hovs
  have hd : dictUpdate kvs ([] : List (Str × KwFn)) = kvs := rfl
  rw [hd] at hh
  have hva : view (step env w (.extend c (.lit []) version none)).1.heap a = some (.cls ⟨kvs, mt, i, m, cw'⟩) := by
    rw [hh, ha]; exact view_cls_new ht _ _ _ _ _
  have hvc : view (step env w (.extend c (.lit []) version none)).1.heap c = some (.cls ⟨kvs, mt, i, m, cw⟩) := by
    rw [hh, view_append hwf (lt_of_get hc)]
    unfold view viewCls
    simp only [hc, hv, ht, Option.map]
  unfold probe
  rw [hva, hvc]
  cases q <;> first | rfl | exact hq.elim

example : (step env initial (.extend 12 (.lit []) none none)).2 = .created 22 := rfl
example : behavioural (.clsIsValid (.obj []) .null) ∧ behavioural .idKey := ⟨trivial, trivial⟩

/-- Overriding or adding ONE keyword: the new class has `f` at `k`; at every other key its table
    agrees with the parent's; its types, id key and metaschema are the parent's. -/
theorem override_one_keyword (w : World) (hwf : WF w.heap) (c : Addr) (k : Str) (f : KwFn)
    (version : Option Str) (a : Addr)
    (hr : (step env w (.extend c (.lit [(k, f)]) version none)).2 = .created a) :
    let w' := (step env w (.extend c (.lit [(k, f)]) version none)).1
    ∃ cv cv', viewCls w.heap c = some cv ∧ viewCls w'.heap c = some cv ∧ viewCls w'.heap a = some cv'
      ∧ lookupS k cv'.kws = some f
      ∧ (∀ k', k' ≠ k → lookupS k' cv'.kws = lookupS k' cv.kws)
      ∧ cv'.types = cv.types ∧ cv'.idKey = cv.idKey ∧ cv'.metaSchema = cv.metaSchema := by
  intro w'
  rcases extend_created hwf hr with ⟨v, t, i, m, cw, kvs, ovs, cw', hc, hv, hov, ha, hh⟩
  rcases get_tc (hwf.cells c _ hc).2 with ⟨mt, ht⟩
  have hovs : ovs = [(k, f)] := by simpa [kwArg, dictUpdate, dictSet] using hov.symm
  subst hovs
  have hvc : viewCls w.heap c = some ⟨kvs, mt, i, m, cw⟩ := by
    unfold viewCls; simp only [hc, hv, ht]
  refine ⟨⟨kvs, mt, i, m, cw⟩, ⟨dictSet k f kvs, mt, i, m, cw'⟩, hvc, ?_, ?_,
    lookupS_dictSet_self k f kvs, fun k' hk' => lookupS_dictSet_ne hk' f kvs, rfl, rfl, rfl⟩
  · show viewCls (step env w (.extend c (.lit [(k, f)]) version none)).1.heap c = _
    rw [hh, viewCls_append hwf (lt_of_get hc)]; exact hvc
  · show viewCls (step env w (.extend c (.lit [(k, f)]) version none)).1.heap a = _
    rw [hh, ha]
    exact viewCls_new ht _ _ _ _ _

example : (step env initial (.extend 8 (.lit [("type".toList, .alwaysFail "x")]) none none)).2 = .created 22 := rfl

/-- … so probes that do not use keyword `k` — table lookups at other keys, `is_type`, the id key —
    answer as for the parent. -/
theorem override_one_keyword_probes (w : World) (hwf : WF w.heap) (c : Addr) (k : Str) (f : KwFn)
    (version : Option Str) (a : Addr)
    (hr : (step env w (.extend c (.lit [(k, f)]) version none)).2 = .created a) :
    let w' := (step env w (.extend c (.lit [(k, f)]) version none)).1
    probe env impl fuel w' a (.kwLookup k) = .kw (some f)
      ∧ (∀ k', k' ≠ k → probe env impl fuel w' a (.kwLookup k') = probe env impl fuel w c (.kwLookup k'))
      ∧ (∀ inst name, probe env impl fuel w' a (.isType inst name) = probe env impl fuel w c (.isType inst name))
      ∧ probe env impl fuel w' a .idKey = probe env impl fuel w c .idKey
      ∧ probe env impl fuel w' a .metaSchema = probe env impl fuel w c .metaSchema := by
  intro w'
  rcases override_one_keyword env w hwf c k f version a hr with ⟨cv, cv', h0, _, h2, hk, hne, hty, hid, hms⟩
  have va : view w'.heap a = some (.cls cv') := view_of_viewCls h2
  have vc : view w.heap c = some (.cls cv) := view_of_viewCls h0
  unfold probe
  rw [va, vc]
  refine ⟨?_, ?_, ?_, ?_, ?_⟩
  · show Answer.kw (lookupS k cv'.kws) = _; rw [hk]
  · intro k' hk'; show Answer.kw (lookupS k' cv'.kws) = Answer.kw (lookupS k' cv.kws); rw [hne k' hk']
  · intro inst name
    show isTypeA cv'.types inst name _ = isTypeA cv.types inst name _; rw [hty]
  · show Answer.str cv'.idKey = Answer.str cv.idKey; rw [hid]
  · show Answer.json cv'.metaSchema = Answer.json cv.metaSchema; rw [hms]

/-- … and so does validation, layer by layer: on every schema object that does not contain the key
    `k`, one layer of `iter_errors` of the new class is the same function of the recursive call as the
    parent's (whatever types / format checker the validating instance carries).  A validation that
    never reaches a schema object containing `k` therefore cannot tell the two classes apart. -/
theorem override_one_keyword_layer (w : World) (hwf : WF w.heap) (c : Addr) (k : Str) (f : KwFn)
    (version : Option Str) (a : Addr)
    (hr : (step env w (.extend c (.lit [(k, f)]) version none)).2 = .created a) :
    let w' := (step env w (.extend c (.lit [(k, f)]) version none)).1
    ∃ cv cv', viewCls w.heap c = some cv ∧ viewCls w'.heap a = some cv' ∧
      ∀ (tys : List (Str × TyFn)) (fc : Option (List FEntry)) (rec : Rec) (inst : Json)
        (kvs : List (Str × Json)), Json.lookup k kvs = none →
        evalStep env impl (cfgOf cv' tys fc) rec inst (.obj kvs)
          = evalStep env impl (cfgOf cv tys fc) rec inst (.obj kvs) := by
  intro w'
  rcases override_one_keyword env w hwf c k f version a hr with ⟨cv, cv', h0, _, h2, _, hne, _, hid, _⟩
  refine ⟨cv, cv', h0, h2, ?_⟩
  intro tys fc rec inst kvs hk
  have e : cfgOf cv' tys fc = { cfgOf cv tys fc with keywords := cv'.kws } := by
    simp only [cfgOf, hid]
  rw [e]
  exact evalStep_override env impl (cfgOf cv tys fc) cv'.kws k hne rec inst kvs hk

/-! ### Validator(schema, types=…) -/

/-- The deprecated `types` argument rebinds `TYPE_CHECKER` on the INSTANCE: no existing cell changes
    (in particular neither the class cell nor the class's type-checker cell), the registries do not
    change, every existing object answers every object-local probe as before, and the new instance
    sees the redefined types while its class still has the old ones. -/
theorem types_arg_is_per_instance (w : World) (hwf : WF w.heap) (c : Addr) (schema : Json)
    (types : List (Str × List String)) (fc : Option Addr) :
    let w' := (step env w (.newValidator c schema types fc)).1
    (∀ x, x < w.heap.length → w'.heap[x]? = w.heap[x]?)
      ∧ w'.validators = w.validators ∧ w'.metaSchemas = w.metaSchemas
      ∧ (∀ x, x < w.heap.length → ∀ q, q.readsRegistry = false →
            probe env impl fuel w' x q = probe env impl fuel w x q)
      ∧ (∀ a, types.isEmpty = false → (step env w (.newValidator c schema types fc)).2 = .created a →
            ∃ cv fcv ms, viewCls w'.heap c = some cv ∧ viewCls w.heap c = some cv
              ∧ view w'.heap a = some (.validator cv (dictUpdate cv.types (legacyDefs types)) schema fcv ms)) := by
  intro w'
  have hset := set_none_of_touches_none env w (.newValidator c schema types fc) hwf rfl
  have hold : ∀ x, x < w.heap.length → w'.heap[x]? = w.heap[x]? := fun x hx =>
    applyEffect_old w _ hx (fun d c' hd => by rw [hset] at hd; cases hd)
  refine ⟨hold, (newValidator_regs env w c schema types fc).1, (newValidator_regs env w c schema types fc).2, ?_, ?_⟩
  · intro x hx q hq
    exact probe_congr env impl fuel (step_view env w _ hwf hx (fun t _ ht _ => by cases ht)) hq
  · intro a hty hr
    rcases newValidator_types_created hwf hty hr with ⟨v, t, i, m, cw, mt, hc, ht, ha, hh⟩
    rcases get_kw (hwf.cells c _ hc).1 with ⟨kvs, hv⟩
    have hvc : viewCls w.heap c = some ⟨kvs, mt, i, m, cw⟩ := by
      unfold viewCls; simp only [hc, hv, ht]
    have hvc' : viewCls (step env w (.newValidator c schema types fc)).1.heap c = some ⟨kvs, mt, i, m, cw⟩ := by
      rw [hh, viewCls_append hwf (lt_of_get hc)]; exact hvc
    have hfc : fcOk w fc = true := by
      by_cases h1 : fcOk w fc = true
      · exact h1
      · simp [step, effect, World.cell, hc, h1] at hr
    have h1 : (step env w (.newValidator c schema types fc)).1.heap[a]?
        = some (.validator c (some w.heap.length) schema fc (metasOf w)) := by
      rw [hh, ha, List.getElem?_append_right (Nat.le_add_right _ _)]; simp
    have h0 : (step env w (.newValidator c schema types fc)).1.heap[w.heap.length]?
        = some (.typeChecker (dictUpdate mt (legacyDefs types))) := by
      rw [hh, List.getElem?_append_right (Nat.le_refl _)]; simp
    cases fc with
    | none =>
      refine ⟨_, none, metasOf w, hvc', hvc, ?_⟩
      show view (step env w (.newValidator c schema types none)).1.heap a = _
      unfold view
      simp only [h1, h0]
      rw [hvc']
    | some f =>
      rcases get_fc (fcOk_spec hfc f rfl) with ⟨d, hf⟩
      rcases get_fmt (hwf.cells f _ hf) with ⟨es, hd⟩
      have hvf : viewFc (step env w (.newValidator c schema types (some f))).1.heap f = some es := by
        rw [hh, viewFc_append hwf (lt_of_get hf)]; unfold viewFc; simp only [hf, hd]
      refine ⟨_, some es, metasOf w, hvc', hvc, ?_⟩
      show view (step env w (.newValidator c schema types (some f))).1.heap a = _
      unfold view
      simp only [h1, h0]
      rw [hvc', hvf]
      rfl

example : (step env initial (.newValidator 12 (.obj []) [("integer".toList, ["str"])] none)).2 = .created 22 := rfl
example : ([("integer".toList, ["str"])] : List (Str × List String)).isEmpty = false := rfl

end JS.Props.C16
