/-
  C17 — an ErrorTree can always be built and contains every error where its path says.
  Property theorems only; helper lemmas live in JS/Proofs/Tree.lean.
  Model: `Tree.build`, `Tree.insert`, `Tree.walk`, `Tree.contains`, `Tree.keys`,
  `Tree.totalErrors`, `Tree.getitem` (JS.Errors). The model's `build` is a total function: that
  the *code* never raises while building is what the TREE correspondence checks.
-/
import JS.Proofs.Tree
namespace JS.Props.C17
open JS

def lookupErr (k : Option Str) : List (Option Str × Err) → Option Err
  | [] => none
  | (k', e) :: rest => if k' = k then some e else lookupErr k rest

theorem lookupErr_eq (k : Option Str) (l : List (Option Str × Err)) :
    lookupErr k l = Tree.lookupE k l := by
  induction l with
  | nil => rfl
  | cons a l ih => obtain ⟨k', e⟩ := a; simp [lookupErr, Tree.lookupE, ih]

/-- walking along any error's path reaches a node whose `errors` maps that error's keyword to an
    error with that same path — whatever the order of arrival -/
theorem walk_finds (es : List Err) (e : Err) (he : e ∈ es) :
    ∃ n, Tree.walk (Tree.build es) e.path = some n ∧
      ∃ e', lookupErr e.kw n.errors = some e' ∧ e'.path = e.path ∧ e'.kw = e.kw := by
  have hs := (Tree.walk_build_isSome_iff es e.path).mpr (Or.inr ⟨e, he, List.prefix_refl _⟩)
  obtain ⟨n, hn⟩ := Option.isSome_iff_exists.mp hs
  refine ⟨n, hn, ?_⟩
  rw [lookupErr_eq, ← Tree.walk_eq_some_walkD hn, Tree.build_errors]
  have hmem : e ∈ es.filter (fun x => decide (x.path = e.path) && decide (x.kw = e.kw)) := by
    simp [List.mem_filter, he]
  cases hl : (es.filter (fun x => decide (x.path = e.path) && decide (x.kw = e.kw))).getLast? with
  | none => rw [List.getLast?_eq_none_iff] at hl; rw [hl] at hmem; cases hmem
  | some e' =>
    have := List.mem_of_getLast? hl
    simp only [List.mem_filter, Bool.and_eq_true, decide_eq_true_iff] at this
    exact ⟨e', rfl, this.2.1, this.2.2⟩

/-- the error filed under a keyword at a node is the last one that arrived for that
    (path, keyword) pair -/
theorem node_errors (es : List Err) (p : List PathElem) (n : Tree)
    (hn : Tree.walk (Tree.build es) p = some n) (k : Option Str) :
    lookupErr k n.errors = (es.filter (fun e => decide (e.path = p) && decide (e.kw = k))).getLast? := by
  rw [lookupErr_eq, ← Tree.walk_eq_some_walkD hn, Tree.build_errors]

/-- which paths exist in the tree: exactly the prefixes of the errors' paths -/
theorem walk_isSome_iff (es : List Err) (p : List PathElem) :
    (Tree.walk (Tree.build es) p).isSome = true ↔ p = [] ∨ ∃ e ∈ es, p <+: e.path := by
  exact Tree.walk_build_isSome_iff es p

/-- membership reports exactly the next path elements that have errors beneath them -/
theorem contains_spec (es : List Err) (p : List PathElem) (n : Tree)
    (hn : Tree.walk (Tree.build es) p = some n) (x : PathElem) :
    n.contains x = true ↔ ∃ e ∈ es, (p ++ [x]) <+: e.path := by
  have h := Tree.walk_build_isSome_iff es (p ++ [x])
  rw [Tree.walk_append, hn] at h
  simp only [List.append_eq_nil_iff, List.cons_ne_self, and_false, false_or] at h
  rw [← h]
  cases hc : Tree.lookupChild x n.children <;> simp [Tree.walk, Tree.contains, hc]

/-- iteration reports the same elements as membership, each once -/
theorem keys_spec (es : List Err) (p : List PathElem) (n : Tree)
    (hn : Tree.walk (Tree.build es) p = some n) :
    n.keys.Nodup ∧ ∀ x, x ∈ n.keys ↔ n.contains x = true := by
  refine ⟨?_, fun x => Tree.mem_keys_iff_lookupChild x n.children⟩
  rw [← Tree.walk_eq_some_walkD hn]
  exact Tree.build_nodup es p

/-- `total_errors` / `len()` = number of distinct (path, keyword) pairs -/
theorem total_errors_spec (es : List Err) :
    (Tree.build es).totalErrors = ((es.map fun e => (e.path, e.kw)).eraseDups).length := by
  exact Tree.build_totalErrors es

/-- the instance a node records is that of the last error filed exactly there -/
theorem node_inst (es : List Err) (p : List PathElem) (n : Tree)
    (hn : Tree.walk (Tree.build es) p = some n) :
    n.inst = ((es.filter (fun e => decide (e.path = p))).getLast?).bind (fun e => e.info.map (·.inst)) := by
  rw [← Tree.walk_eq_some_walkD hn, Tree.build_inst]

/-- indexing an element without errors: an empty tree when the recorded instance has that
    element (or nothing is recorded), otherwise the instance's own lookup error -/
theorem getitem_errorfree (n : Tree) (x : PathElem) (hno : n.contains x = false) :
    (∀ inst, n.inst = some inst → Tree.indexRaises inst x = none → ∃ t', n.getitem x = .ok (Tree.empty, t'))
    ∧ (n.inst = none → ∃ t', n.getitem x = .ok (Tree.empty, t'))
    ∧ (∀ inst cls, n.inst = some inst → Tree.indexRaises inst x = some cls → n.getitem x = .error cls) := by
  obtain ⟨errs, ch, i⟩ := n
  have hl : Tree.lookupChild x ch = none := by
    simpa [Tree.contains, Tree.children] using hno
  refine ⟨?_, ?_, ?_⟩
  · intro inst hi hr
    simp only [Tree.inst] at hi
    subst hi
    exact ⟨.node errs (ch ++ [(x, Tree.empty)]) (some inst), by simp [Tree.getitem, hl, hr]⟩
  · intro hi
    simp only [Tree.inst] at hi
    subst hi
    exact ⟨.node errs (ch ++ [(x, Tree.empty)]) none, by simp [Tree.getitem, hl]⟩
  · intro inst cls hi hr
    simp only [Tree.inst] at hi
    subst hi
    simp [Tree.getitem, hl, hr]

/-- indexing an element with errors returns the child and leaves the tree unchanged -/
theorem getitem_child (n c : Tree) (x : PathElem) (h : Tree.lookupChild x n.children = some c) :
    n.getitem x = .ok (c, n) := by
  obtain ⟨errs, ch, i⟩ := n
  simp only [Tree.children] at h
  simp [Tree.getitem, h]

/-- the order of arrival does not change what membership, iteration (as a set) and
    `total_errors` report -/
theorem order_independent (es es' : List Err) (h : es.Perm es') :
    (Tree.build es).totalErrors = (Tree.build es').totalErrors
    ∧ ∀ p, (Tree.walk (Tree.build es) p).isSome = (Tree.walk (Tree.build es') p).isSome := by
  refine ⟨?_, fun p => ?_⟩
  · rw [total_errors_spec, total_errors_spec]
    exact Tree.length_eraseDups_perm (h.map _)
  · rw [Bool.eq_iff_iff, walk_isSome_iff, walk_isSome_iff]
    simp only [h.mem_iff]

end JS.Props.C17
