/-
  C17 — an ErrorTree can always be built and contains every error where its path says.
  Property theorems only; helper lemmas live in JS/Proofs/Tree.lean.
  Model: `Tree.build`, `Tree.insert`, `Tree.walk`, `Tree.contains`, `Tree.keys`,
  `Tree.totalErrors`, `Tree.getitem` (JS.Errors). The model's `build` is a total function: that
  the *code* never raises while building is what the TREE correspondence checks.
-/
import JS.Proofs.Tree
namespace JS.Props.C17
open JS

def lookupErr (k : Option Str) : List (Option Str × Err) → Option Err
  | [] => none
  | (k', e) :: rest => if k' = k then some e else lookupErr k rest

/-- walking along any error's path reaches a node whose `errors` maps that error's keyword to an
    error with that same path — whatever the order of arrival -/
theorem walk_finds (es : List Err) (e : Err) (he : e ∈ es) :
    ∃ n, Tree.walk (Tree.build es) e.path = some n ∧
      ∃ e', lookupErr e.kw n.errors = some e' ∧ e'.path = e.path ∧ e'.kw = e.kw := by
  sorry

/-- the error filed under a keyword at a node is the last one that arrived for that
    (path, keyword) pair -/
theorem node_errors (es : List Err) (p : List PathElem) (n : Tree)
    (hn : Tree.walk (Tree.build es) p = some n) (k : Option Str) :
    lookupErr k n.errors = (es.filter (fun e => decide (e.path = p) && decide (e.kw = k))).getLast? := by
  sorry

/-- which paths exist in the tree: exactly the prefixes of the errors' paths -/
theorem walk_isSome_iff (es : List Err) (p : List PathElem) :
    (Tree.walk (Tree.build es) p).isSome = true ↔ p = [] ∨ ∃ e ∈ es, p <+: e.path := by
  sorry

/-- membership reports exactly the next path elements that have errors beneath them -/
theorem contains_spec (es : List Err) (p : List PathElem) (n : Tree)
    (hn : Tree.walk (Tree.build es) p = some n) (x : PathElem) :
    n.contains x = true ↔ ∃ e ∈ es, (p ++ [x]) <+: e.path := by
  sorry

/-- iteration reports the same elements as membership, each once -/
theorem keys_spec (es : List Err) (p : List PathElem) (n : Tree)
    (hn : Tree.walk (Tree.build es) p = some n) :
    n.keys.Nodup ∧ ∀ x, x ∈ n.keys ↔ n.contains x = true := by
  sorry

/-- `total_errors` / `len()` = number of distinct (path, keyword) pairs -/
theorem total_errors_spec (es : List Err) :
    (Tree.build es).totalErrors = ((es.map fun e => (e.path, e.kw)).eraseDups).length := by
  sorry

/-- the instance a node records is that of the last error filed exactly there -/
theorem node_inst (es : List Err) (p : List PathElem) (n : Tree)
    (hn : Tree.walk (Tree.build es) p = some n) :
    n.inst = ((es.filter (fun e => decide (e.path = p))).getLast?).bind (fun e => e.info.map (·.inst)) := by
  sorry

/-- indexing an element without errors: an empty tree when the recorded instance has that
    element (or nothing is recorded), otherwise the instance's own lookup error -/
theorem getitem_errorfree (n : Tree) (x : PathElem) (hno : n.contains x = false) :
    (∀ inst, n.inst = some inst → Tree.indexRaises inst x = none → ∃ t', n.getitem x = .ok (Tree.empty, t'))
    ∧ (n.inst = none → ∃ t', n.getitem x = .ok (Tree.empty, t'))
    ∧ (∀ inst cls, n.inst = some inst → Tree.indexRaises inst x = some cls → n.getitem x = .error cls) := by
  sorry

/-- indexing an element with errors returns the child and leaves the tree unchanged -/
theorem getitem_child (n c : Tree) (x : PathElem) (h : Tree.lookupChild x n.children = some c) :
    n.getitem x = .ok (c, n) := by
  sorry

/-- the order of arrival does not change what membership, iteration (as a set) and
    `total_errors` report -/
theorem order_independent (es es' : List Err) (h : es.Perm es') :
    (Tree.build es).totalErrors = (Tree.build es').totalErrors
    ∧ ∀ p, (Tree.walk (Tree.build es) p).isSome = (Tree.walk (Tree.build es') p).isSome := by
  sorry

end JS.Props.C17
