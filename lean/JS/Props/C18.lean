/-
  C18 — validator objects that do not share a resolver do not influence each other: consuming
  their error iterators interleaved in any order gives each exactly the errors it gives when run
  alone, even when their schemas have the same base URI and identical reference strings that
  designate different definitions.

  Property theorems only; helper lemmas live in JS/Proofs/System.lean.
  Model: JS/System.lean — `System = Globals × List VState`, `VState.next` (one `next()` on one
  validator: takes and returns that validator's state only), `System.step`, `runSched`.

  What the theorems say, in the order of the argument:
  * `step_frame`, `globals_readonly`, `step_is_next` — a scheduled `next()` of validator `a` is
    `VState.next` on `a`'s own state; every other slot and the module globals are unchanged;
  * `interleaving_independent`, `interleaving_gives_alone` — by induction on the schedule: the
    events (and the final state) of `a` in any interleaving are those of `a` driven alone;
  * `alone_is_exhaustive_prefix` — alone, `n` calls of `next()` on a fresh generator show the first
    `n` errors of `list(v.iter_errors(inst))`, then how that run ends, then StopIteration (from the
    budget-prefix law `lawful_eval`), so the recomputing model of `next()` is well defined;
  * `any_interleaving_gives_alone_errors` — the two together.

  Outside the statement (DESIGN §6 C18, "partial"): re-entering a validator while one of its own
  generators is suspended (the model answers `busy` and changes nothing), and preemptive thread
  schedules (explored by the harness, not proved).  The theorems are short because the model's
  state *is* a product; their force lies in the SYS correspondence, which fails as soon as the
  implementation shares something the model keeps apart.
-/
import JS.Proofs.System
namespace JS.Props.C18
open JS

variable (env : Env) (impl : FmtImpl)

/-- **Frame.** A `next()` step of validator `a` leaves every other validator's state unchanged. -/
theorem step_frame (σ : System) (a j b : Nat) (h : b ≠ a) :
    (System.step env impl σ (a, j)).2.vals[b]? = σ.vals[b]? :=
  System.step_frame' env impl σ (a, j) b h

/-- … and the module globals unchanged: validation reads them at most. -/
theorem globals_readonly (σ : System) (a j : Nat) :
    (System.step env impl σ (a, j)).2.globals = σ.globals :=
  System.step_globals' env impl σ (a, j)

/-- … and what it does to validator `a` is `VState.next`, a function of `a`'s own state (and the
    read-only globals) that returns `a`'s own state: nothing of the other validators flows in. -/
theorem step_is_next (σ : System) (a j : Nat) (v : VState) (hv : σ.vals[a]? = some v) :
    (System.step env impl σ (a, j)).1 = (VState.next env impl σ.globals v j).1
    ∧ (System.step env impl σ (a, j)).2.vals[a]? = some (VState.next env impl σ.globals v j).2 :=
  System.step_self env impl (s := (a, j)) hv

/-- the globals are the same after any schedule -/
theorem run_globals_readonly (σ : System) (sched : Schedule) :
    (runSched env impl σ sched).2.globals = σ.globals :=
  runSched_globals env impl sched σ

/-- not even the value of the globals matters to a `next()` -/
theorem next_ignores_globals (g g' : Globals) (v : VState) (j : Nat) :
    VState.next env impl g v j = VState.next env impl g' v j :=
  VState.next_globals_irrelevant env impl g g' v j

/-- **Independence.** For every schedule and every validator `a`, the sequence of events of `a` in
    the interleaved run equals that in the run of `a`'s own steps alone. -/
theorem interleaving_independent (σ : System) (sched : Schedule) (a : Nat) :
    outputsOf a sched (runSched env impl σ sched).1
      = outputsOf a (sched.filter (·.1 = a)) (runSched env impl σ (sched.filter (·.1 = a))).1 := by
  show _ = outputsOf a (Schedule.only a sched) (runSched env impl σ (Schedule.only a sched)).1
  cases hv : σ.vals[a]? with
  | none =>
    rw [runSched_proj_none env impl a sched σ hv, runSched_proj_none env impl a _ σ hv,
      Schedule.proj_only]
  | some v =>
    rw [(runSched_proj env impl a sched σ v hv).1, (runSched_proj env impl a _ σ v hv).1,
      Schedule.proj_only]

/-- The same without any system on the right-hand side: the events of `a` in any interleaving, and
    the state `a` is left in, are those of the single validator `a` driven by `VState.runAlone`
    through its own subsequence of the schedule. -/
theorem interleaving_gives_alone (σ : System) (sched : Schedule) (a : Nat) (v : VState)
    (hv : σ.vals[a]? = some v) :
    outputsOf a sched (runSched env impl σ sched).1
        = (VState.runAlone env impl σ.globals v (Schedule.proj a sched)).1
    ∧ (runSched env impl σ sched).2.vals[a]?
        = some (VState.runAlone env impl σ.globals v (Schedule.proj a sched)).2 :=
  runSched_proj env impl a sched σ v hv

/-- **Alone = prefix of the exhaustive run.** A fresh generator `v.iter_errors(inst)` (number `j`,
    no other generator of `v` suspended) pulled `n` times shows the first `n` errors of the
    exhaustive run `eval … none v.rstate`, followed — once the errors are used up — by the way
    that run ends and then by StopIteration; the exhaustive run never "ends" with `budget`. -/
theorem alone_is_exhaustive_prefix (g : Globals) (v : VState) (j n : Nat) (inst : Json)
    (hj : v.iters[j]? = some (Iter.fresh inst)) (hidle : v.busyExcept j = false) :
    (VState.runAlone env impl g v (List.replicate n j)).1
        = pullsOf (eval (v.envOf env) impl v.cfg v.fuel inst v.schema none v.rstate) n
    ∧ (eval (v.envOf env) impl v.cfg v.fuel inst v.schema none v.rstate).stop ≠ .budget :=
  ⟨VState.runAlone_fresh env impl g _
      (lawful_eval (v.envOf env) impl v.cfg v.fuel inst v.schema).prefixLaw v j n inst hj hidle rfl,
   (lawful_eval (v.envOf env) impl v.cfg v.fuel inst v.schema).nobudget v.rstate⟩

/-- **Corollary.** Whatever the other validators are and however the `next()` calls are
    interleaved, the events of validator `a` (one fresh generator `j` on `inst`) are the first `n`
    errors of its own exhaustive run and then its own termination, `n` being the number of steps
    the schedule gives it. -/
theorem any_interleaving_gives_alone_errors (σ : System) (sched : Schedule) (a j : Nat) (v : VState)
    (inst : Json) (hv : σ.vals[a]? = some v)
    (hj : v.iters[j]? = some (Iter.fresh inst)) (hidle : v.busyExcept j = false)
    (honly : ∀ s ∈ sched, s.1 = a → s.2 = j) :
    outputsOf a sched (runSched env impl σ sched).1
      = pullsOf (eval (v.envOf env) impl v.cfg v.fuel inst v.schema none v.rstate)
          (sched.filter (·.1 = a)).length := by
  rw [(interleaving_gives_alone env impl σ sched a v hv).1, Schedule.proj_eq_replicate a j sched honly]
  exact (alone_is_exhaustive_prefix env impl σ.globals v j _ inst hj hidle).1

/-- … in particular the errors it collects are a prefix of `list(v.iter_errors(inst))` run alone,
    the whole list once the schedule gives it more steps than there are errors. -/
theorem any_interleaving_collects_alone_errors (σ : System) (sched : Schedule) (a j : Nat) (v : VState)
    (inst : Json) (hv : σ.vals[a]? = some v)
    (hj : v.iters[j]? = some (Iter.fresh inst)) (hidle : v.busyExcept j = false)
    (honly : ∀ s ∈ sched, s.1 = a → s.2 = j) :
    errorsOf (outputsOf a sched (runSched env impl σ sched).1)
      = (eval (v.envOf env) impl v.cfg v.fuel inst v.schema none v.rstate).errs.take
          (sched.filter (·.1 = a)).length := by
  rw [any_interleaving_gives_alone_errors env impl σ sched a j v inst hv hj hidle honly, errorsOf_pullsOf]

/-! ### non-vacuity: two validators built to collide

Both schemas have the id `http://ex.org/s.json` and the references `#/definitions/a` under `x` and
`y`; in the first `a` is `{"type": "string"}`, in the second `{"type": "integer"}`.  On
`{"x": 1, "y": "s"}` the first reports `x`, the second `y`. -/

namespace Ex

def k (s : String) : Str := s.toList
def base : Str := k "http://ex.org/s.json"

/-- enough of `urllib.parse` for these URIs -/
def world : Env :=
  { (default : Env) with
    urljoin := fun a b => some (match b with | '#' :: _ => a.takeWhile (· ≠ '#') ++ b | _ => b)
    urldefrag := fun u => some (u.takeWhile (· ≠ '#'), (u.dropWhile (· ≠ '#')).drop 1)
    urinorm := fun u => some u }

def schemaWith (a : Json) : Json :=
  .obj [ (k "$id", .str base),
         (k "definitions", .obj [(k "a", a)]),
         (k "properties", .obj [ (k "x", .obj [(k "$ref", .str (k "#/definitions/a"))]),
                                 (k "y", .obj [(k "$ref", .str (k "#/definitions/a"))]) ]) ]

def inst : Json := .obj [(k "x", .num (.int 1)), (k "y", .str (k "s"))]

/-- `Draft7Validator(schema)` with its own resolver and one generator `iter_errors(inst)` -/
def mkV (a : Json) (its : List Iter) : VState :=
  { cfg := Draft.d7.cfg, schema := schemaWith a, fuel := 10,
    handlers := fun _ _ => none, formats := fun _ _ => none,
    rstate := { scopes := [base], store := [(base, schemaWith a)], memo := [], memoCap := some 1024,
                cacheRemote := true, clock := 0, fetchLog := [] },
    iters := its }

def tyS : Json := .obj [(k "type", .str (k "string"))]
def tyI : Json := .obj [(k "type", .str (k "integer"))]

def σ : System := ⟨Globals.initial, [mkV tyS [Iter.fresh inst], mkV tyI [Iter.fresh inst]]⟩

def noImpl : FmtImpl := ⟨fun _ _ => none⟩

/-- a comparable digest of an event: kind, and for an error its instance path -/
def digest : Event → Nat × List PathElem
  | .error e => (0, e.path)
  | .done => (1, [])
  | .raised _ => (2, [])
  | .other _ => (3, [])
  | .busy => (4, [])
  | .noIter => (5, [])

def sched : Schedule := [(0, 0), (1, 0), (1, 0), (0, 0), (1, 0), (0, 0), (2, 0)]

end Ex

open Ex in
/-- the interleaved run: validator 0 reports `x` then ends, validator 1 reports `y` then ends
    (and keeps answering StopIteration); there is no validator 2 -/
theorem collide_interleaved :
    (runSched Ex.world noImpl Ex.σ Ex.sched).1.map digest
      = [(0, [.key (k "x")]), (0, [.key (k "y")]), (1, []), (1, []), (1, []), (1, []), (5, [])] := by
  decide +kernel

open Ex in
/-- the hypotheses of `any_interleaving_gives_alone_errors` hold of both validators of `Ex.σ`, and
    its conclusion is not trivial: the two exhaustive runs differ although base URI and reference
    strings are the same -/
example :
    outputsOf 0 Ex.sched (runSched Ex.world noImpl Ex.σ Ex.sched).1
      = pullsOf (eval ((mkV tyS [Iter.fresh inst]).envOf Ex.world) noImpl Draft.d7.cfg 10 inst (schemaWith tyS) none
          (mkV tyS []).rstate) 3 :=
  any_interleaving_gives_alone_errors Ex.world noImpl Ex.σ Ex.sched 0 0 _ inst rfl rfl rfl (by decide)

open Ex in
theorem collide_runs_differ :
    ((eval Ex.world noImpl Draft.d7.cfg 10 inst (schemaWith tyS) none (mkV tyS []).rstate).errs.map (·.path),
     (eval Ex.world noImpl Draft.d7.cfg 10 inst (schemaWith tyI) none (mkV tyI []).rstate).errs.map (·.path))
      = ([[.key (k "x")]], [[.key (k "y")]]) := by
  decide +kernel

open Ex in
/-- outside the claim: a second generator of the *same* validator advanced while the first is
    suspended is answered `busy`; once the first has ended the second runs -/
theorem reentry_is_busy :
    ((VState.runAlone Ex.world noImpl Globals.initial (mkV tyS [Iter.fresh inst, Iter.fresh inst])
        [0, 1, 0, 1, 1]).1).map digest
      = [(0, [.key (k "x")]), (4, []), (1, []), (0, [.key (k "x")]), (1, [])] := by
  decide +kernel

open Ex in
/-- an exception ends a generator once; afterwards it answers StopIteration -/
theorem raised_then_done :
    ((VState.runAlone Ex.world noImpl Globals.initial
        (mkV (.obj [(k "$ref", .str (k "#/definitions/nope"))]) [Iter.fresh inst]) [0, 0]).1).map digest
      = [(2, []), (1, [])] := by
  decide +kernel

end JS.Props.C18
