/-
  C19 — the command line: exit status, every instance processed, errors as the library reports them.
  Property theorems only; helper lemmas live in JS/Proofs/Cli.lean.
  Model: `Cli.run`, `Cli.setup`, `Cli.loop` = fold of `Cli.stepInstance`, `Cli.instanceOut`,
  `Cli.validated` (JS.Cli), on top of `validatorFor`, `checkSchema`, `freshResolver`/`mkResolver`
  and `eval` (JS.Module, JS.Eval).

  Vocabulary. `setup … = .ready c schema st0` says: the schema file loads, the class is chosen
  (`--validator` or `validator_for`), `check_schema` accepts and the validator object exists with
  resolver state `st0` (theorem `setup_ready`). `outs s st0 paths` are the outputs of the listed
  instances one after the other on that ONE validator object (each from the resolver state the
  previous one left). `(run …).ending = .exit n` says that no exception escaped `run`.
-/
import JS.Proofs.Cli
namespace JS.Props.C19
open JS JS.Cli

/-- what "the schema is fine" means, item by item -/
theorem setup_ready (env : Env) (impl : FmtImpl) (g : Globals) (fuel : Nat) (fs : FS) (args : Args)
    (c : ClassDef) (schema : Json) (st0 : RState) :
    setup env impl g fuel fs args = .ready c schema st0 ↔
      lookupFile fs args.schema = .json schema          -- the schema file loads
      ∧ classFor env g args schema = .ok c              -- `--validator`, else `validator_for(schema)`
      ∧ checkSchema env impl g c fuel schema = .ok      -- `check_schema` accepts
      ∧ resolverFor env g args c schema = .ok st0 :=    -- `--base-uri` resolver, else the class's own
  setup_ready_iff env impl g fuel fs args c schema st0

/-- **Exit status 0** exactly when the schema file loads, passes `check_schema`, and every listed
    instance (or stdin) loads and `iter_errors` on the one validator object — in the resolver state
    the previous instances left — yields nothing and ends normally. In every other case the status
    is 1 (`status_zero_or_one`). -/
theorem exit_zero_iff (env : Env) (impl : FmtImpl) (g : Globals) (fuel : Nat) (fs : FS) (stdin : FileState)
    (args : Args) :
    (run env impl g fuel fs stdin args).status = 0 ↔
      ∃ schema c st0,
        lookupFile fs args.schema = .json schema
        ∧ classFor env g args schema = .ok c
        ∧ checkSchema env impl g c fuel schema = .ok
        ∧ resolverFor env g args c schema = .ok st0
        ∧ AllValid (session env impl fuel fs stdin args c schema) st0 (paths args) := by
  unfold run
  cases hs : setup env impl g fuel fs args with
  | done r =>
    simp only [(setup_done env impl g fuel fs args r hs).1, Nat.succ_ne_zero, false_iff, not_exists, not_and]
    intro schema c st0 h1 h2 h3 h4
    have := (setup_ready_iff env impl g fuel fs args c schema st0).2 ⟨h1, h2, h3, h4⟩
    rw [hs] at this; cases this
  | ready c schema st =>
    simp only [loop_status_zero_iff, ← allValid_iff]
    constructor
    · intro h
      obtain ⟨h1, h2, h3, h4⟩ := (setup_ready_iff env impl g fuel fs args c schema st).1 hs
      exact ⟨schema, c, st, h1, h2, h3, h4, h⟩
    · rintro ⟨schema', c', st', h1, h2, h3, h4, h⟩
      have := (setup_ready_iff env impl g fuel fs args c' schema' st').2 ⟨h1, h2, h3, h4⟩
      rw [hs] at this; cases this
      exact h

/-- the status is 0 or 1, whatever happens -/
theorem status_zero_or_one (env : Env) (impl : FmtImpl) (g : Globals) (fuel : Nat) (fs : FS)
    (stdin : FileState) (args : Args) :
    (run env impl g fuel fs stdin args).status = 0 ∨ (run env impl g fuel fs stdin args).status = 1 := by
  have : (run env impl g fuel fs stdin args).status ≤ 1 := by
    unfold run
    cases hs : setup env impl g fuel fs args with
    | done r => simp [(setup_done env impl g fuel fs args r hs).1]
    | ready c schema st => exact loop_status_le_one _ _ _
  omega

/-- **Every listed instance is processed**, whatever happened to the ones before it: when the
    schema is fine and no exception escapes, stderr and stdout are the concatenation over ALL
    listed instances, in order, of each instance's own events — one output per listed path. -/
theorem every_instance_processed (env : Env) (impl : FmtImpl) (g : Globals) (fuel : Nat) (fs : FS)
    (stdin : FileState) (args : Args) (c : ClassDef) (schema : Json) (st0 : RState) (n : Nat)
    (hs : setup env impl g fuel fs args = .ready c schema st0)
    (hn : (run env impl g fuel fs stdin args).ending = .exit n) :
    (run env impl g fuel fs stdin args).stderr
        = (outs (session env impl fuel fs stdin args c schema) st0 (paths args)).flatMap (·.stderr)
    ∧ (run env impl g fuel fs stdin args).stdout
        = (outs (session env impl fuel fs stdin args c schema) st0 (paths args)).flatMap (·.stdout)
    ∧ (outs (session env impl fuel fs stdin args c schema) st0 (paths args)).map (·.path) = paths args := by
  unfold run at hn ⊢
  rw [hs] at hn ⊢
  simp only at hn ⊢
  obtain ⟨h1, h2, _, h4⟩ := loop_spec (session env impl fuel fs stdin args c schema) st0 (paths args)
  have ha := ((result_exit_iff _ n).1 hn).1
  rw [h4, firstAbort_none_iff] at ha
  rw [reached_of_no_abort _ ha] at h1 h2
  exact ⟨by rw [result_stderr, h1], by rw [result_stdout, h2], outs_paths _ _ _⟩

/-- … and when an exception does escape (`RefResolutionError` from the library, say), what was
    written is exactly the concatenation over the instances up to and including the one it escaped
    from (`reached` is a prefix of the outputs). -/
theorem output_up_to_escape (env : Env) (impl : FmtImpl) (g : Globals) (fuel : Nat) (fs : FS)
    (stdin : FileState) (args : Args) (c : ClassDef) (schema : Json) (st0 : RState)
    (hs : setup env impl g fuel fs args = .ready c schema st0) :
    (run env impl g fuel fs stdin args).stderr
        = (reached (outs (session env impl fuel fs stdin args c schema) st0 (paths args))).flatMap (·.stderr)
    ∧ (run env impl g fuel fs stdin args).stdout
        = (reached (outs (session env impl fuel fs stdin args c schema) st0 (paths args))).flatMap (·.stdout)
    ∧ ∃ rest, outs (session env impl fuel fs stdin args c schema) st0 (paths args)
        = reached (outs (session env impl fuel fs stdin args c schema) st0 (paths args)) ++ rest := by
  unfold run
  rw [hs]
  obtain ⟨h1, h2, _, _⟩ := loop_spec (session env impl fuel fs stdin args c schema) st0 (paths args)
  exact ⟨by simp only [result_stderr, h1], by simp only [result_stdout, h2], reached_sublist _⟩

/-- **The status is a disjunction**: when `run` returns, it returns 1 iff some listed instance
    failed to load or had errors, and 0 otherwise — wherever in the list that instance is. -/
theorem status_is_or (env : Env) (impl : FmtImpl) (g : Globals) (fuel : Nat) (fs : FS)
    (stdin : FileState) (args : Args) (c : ClassDef) (schema : Json) (st0 : RState) (n : Nat)
    (hs : setup env impl g fuel fs args = .ready c schema st0)
    (hn : (run env impl g fuel fs stdin args).ending = .exit n) :
    (n = 0 ∨ n = 1)
    ∧ (n = 1 ↔ ∃ o ∈ outs (session env impl fuel fs stdin args c schema) st0 (paths args), o.failed = true) := by
  unfold run at hn
  rw [hs] at hn
  simp only at hn
  obtain ⟨_, _, h3, h4⟩ := loop_spec (session env impl fuel fs stdin args c schema) st0 (paths args)
  obtain ⟨ha, he⟩ := (result_exit_iff _ n).1 hn
  rw [h4, firstAbort_none_iff] at ha
  rw [h3, reached_of_no_abort _ ha] at he
  have hle : n ≤ 1 := he ▸ foldl_exit_le_one _ 0 (by omega)
  have hz : n = 0 ↔ ∀ o ∈ outs (session env impl fuel fs stdin args c schema) st0 (paths args), o.failed = false := by
    rw [← he, foldl_exit_zero_iff]; simp
  refine ⟨by omega, ?_⟩
  constructor
  · intro h1
    apply Classical.byContradiction
    intro hne
    have : n = 0 := hz.2 fun o ho => by
      cases hf : o.failed
      · rfl
      · exact absurd ⟨o, ho, hf⟩ hne
    omega
  · rintro ⟨o, ho, hf⟩
    have : n ≠ 0 := fun h0 => by
      have := hz.1 h0 o ho
      rw [hf] at this; cases this
    omega

/-- **Order independence** (the precise version): suppose that whether an instance is clean
    (loads, no error, nothing escaping) does not depend on the resolver state the validator is in
    — true e.g. when validation never retrieves a remote document. Then permuting the `-i`
    arguments does not change the exit status. -/
theorem status_order_independent (env : Env) (impl : FmtImpl) (g : Globals) (fuel : Nat) (fs : FS)
    (stdin : FileState) (args args' : Args)
    (hsch : args'.schema = args.schema) (hv : args'.validator = args.validator)
    (hb : args'.baseUri = args.baseUri) (hp : args'.instances.Perm args.instances)
    (hblind : ∀ c schema st0, setup env impl g fuel fs args = .ready c schema st0 →
      ∀ p st st', (instanceOut (session env impl fuel fs stdin args c schema) st p).clean
                = (instanceOut (session env impl fuel fs stdin args c schema) st' p).clean) :
    (run env impl g fuel fs stdin args').status = (run env impl g fuel fs stdin args).status := by
  have hset : setup env impl g fuel fs args' = setup env impl g fuel fs args :=
    setup_congr env impl g fuel fs fs args args' rfl hsch hv hb
  have hemp : args'.instances.isEmpty = args.instances.isEmpty := by
    have := hp.length_eq
    cases h1 : args'.instances <;> cases h2 : args.instances <;> simp_all
  have hsrc := source_congr fs stdin args args' hemp
  have hpaths : (paths args').Perm (paths args) := by
    unfold paths; rw [hemp]; split
    · exact List.Perm.refl _
    · exact hp
  unfold run
  rw [hset]
  cases hs : setup env impl g fuel fs args with
  | done r => rfl
  | ready c schema st0 =>
    have hsess : session env impl fuel fs stdin args' c schema = session env impl fuel fs stdin args c schema := by
      simp [session, hsrc]
    simp only [hsess]
    have hbl := hblind c schema st0 hs
    have h0 : ∀ ps, (loop (session env impl fuel fs stdin args c schema) st0 ps).result.status = 0
        ↔ ∀ p ∈ ps, (instanceOut (session env impl fuel fs stdin args c schema) st0 p).clean = true :=
      fun ps => by rw [loop_status_zero_iff, outs_clean_blind _ hbl st0]
    have hiff : (loop (session env impl fuel fs stdin args c schema) st0 (paths args')).result.status = 0
        ↔ (loop (session env impl fuel fs stdin args c schema) st0 (paths args)).result.status = 0 := by
      rw [h0, h0]
      exact ⟨fun h p hp' => h p (hpaths.mem_iff.2 hp'), fun h p hp' => h p (hpaths.mem_iff.1 hp')⟩
    have l1 := loop_status_le_one (session env impl fuel fs stdin args c schema) st0 (paths args')
    have l2 := loop_status_le_one (session env impl fuel fs stdin args c schema) st0 (paths args)
    omega

/-- **Each instance yields exactly the errors the library reports for it**: for a listed path that
    loads, the events on stderr are — one for one and in order — the errors of an exhaustive
    `iter_errors(instance)` on the validator object (class without format checker, the schema, the
    resolver state at that point); the success event is written iff that iteration ends normally
    with no error; `invalid` is "there was an error"; and the resolver is left as `iter_errors`
    leaves it. -/
theorem per_instance_follows_library (s : Session) (st : RState) (p : Str) (v : Json)
    (h : s.source p = .json v) :
    (instanceOut s st p).stderr
        = (eval s.env s.impl s.cfg s.fuel v s.schema none st).errs.map (Event.validationError p)
    ∧ (instanceOut s st p).stdout
        = (if (eval s.env s.impl s.cfg s.fuel v s.schema none st).stop.isDone
              ∧ (eval s.env s.impl s.cfg s.fuel v s.schema none st).errs = [] then [Event.success p] else [])
    ∧ (instanceOut s st p).invalid = !(eval s.env s.impl s.cfg s.fuel v s.schema none st).errs.isEmpty
    ∧ (instanceOut s st p).loaded = true
    ∧ (instanceOut s st p).st = (eval s.env s.impl s.cfg s.fuel v s.schema none st).st := by
  rw [instanceOut_json s st p v h]
  exact ⟨validated_stderr _ _, validated_stdout _ _, validated_invalid _ _, validated_loaded _ _, validated_st _ _⟩

/-- the validator object of the session is the chosen class instantiated without a format checker
    on the loaded schema, and `load` reads the listed files (or stdin when none is listed) -/
theorem session_is_the_library_call (env : Env) (impl : FmtImpl) (fuel : Nat) (fs : FS) (stdin : FileState)
    (args : Args) (c : ClassDef) (schema : Json) :
    (session env impl fuel fs stdin args c schema).cfg = { c.cfg with formatChecker := none }
    ∧ (session env impl fuel fs stdin args c schema).schema = schema
    ∧ (args.instances ≠ [] → (session env impl fuel fs stdin args c schema).source = lookupFile fs)
    ∧ (args.instances = [] → ∀ p, (session env impl fuel fs stdin args c schema).source p = stdinState stdin) := by
  refine ⟨rfl, rfl, ?_, ?_⟩
  · intro h; cases hi : args.instances with
    | nil => exact absurd hi h
    | cons a as => simp [session, source, hi]
  · intro h p; simp [session, source, h]

/-- **Only success events reach stdout**, each for a listed path … -/
theorem plain_stdout_events (env : Env) (impl : FmtImpl) (g : Globals) (fuel : Nat) (fs : FS)
    (stdin : FileState) (args : Args) :
    ∀ ev ∈ (run env impl g fuel fs stdin args).stdout, ∃ p ∈ paths args, ev = Event.success p := by
  unfold run
  cases hs : setup env impl g fuel fs args with
  | done r => simp [(setup_done env impl g fuel fs args r hs).2.1]
  | ready c schema st0 =>
    intro ev hev
    rw [result_stdout, (loop_spec _ _ _).2.1, List.mem_flatMap] at hev
    obtain ⟨o, ho, hev⟩ := hev
    obtain ⟨st', p, hp, rfl⟩ := outs_mem _ _ _ o (reached_mem _ o ho)
    rw [instanceOut_stdout] at hev
    split at hev
    · simp only [List.mem_singleton] at hev; exact ⟨p, hp, hev⟩
    · simp at hev

/-- … and in plain mode a success event is the empty text: **plain mode writes nothing to stdout** -/
theorem plain_stdout_empty (env : Env) (impl : FmtImpl) (g : Globals) (fuel : Nat) (fs : FS)
    (stdin : FileState) (args : Args) (h : args.output = .plain) :
    stdoutText args.output (run env impl g fuel fs stdin args).stdout = [] := by
  rw [h]
  simp only [stdoutText, List.flatMap_eq_nil_iff]
  intro ev _
  cases ev <;> rfl

/-- **Pretty mode: one success header per valid instance**, in the order of the list, and nothing
    else on stdout. -/
theorem pretty_one_header_per_valid (env : Env) (impl : FmtImpl) (g : Globals) (fuel : Nat) (fs : FS)
    (stdin : FileState) (args : Args) (c : ClassDef) (schema : Json) (st0 : RState) (n : Nat)
    (hs : setup env impl g fuel fs args = .ready c schema st0)
    (hn : (run env impl g fuel fs stdin args).ending = .exit n) :
    (run env impl g fuel fs stdin args).stdout
      = ((outs (session env impl fuel fs stdin args c schema) st0 (paths args)).filter (·.clean)).map
          (fun o => Event.success o.path)
    ∧ stdoutText .pretty (run env impl g fuel fs stdin args).stdout
      = ((outs (session env impl fuel fs stdin args c schema) st0 (paths args)).filter (·.clean)).flatMap
          (fun o => "===[SUCCESS]===(".toList ++ o.path ++ ")===\n".toList) := by
  have h := ((every_instance_processed env impl g fuel fs stdin args c schema st0 n hs hn).2.1).trans
    (outs_stdout (session env impl fuel fs stdin args c schema) (paths args) st0)
  refine ⟨h, ?_⟩
  rw [h]
  exact stdoutText_map_success .pretty (fun o : InstOut => o.path) _

/-- **One diagnostic per unreadable or unparsable file**: a missing file yields exactly the
    `notFound` event, a file that is not JSON exactly the `parseError` event, nothing on stdout,
    the validator untouched, and the loop goes on. -/
theorem one_diagnostic_per_bad_file (s : Session) (st : RState) (p : Str) :
    (s.source p = .missing →
      instanceOut s st p = ⟨p, false, false, [.notFound p], [], none, st⟩)
    ∧ (s.source p = .notJson →
      instanceOut s st p = ⟨p, false, false, [.parseError p], [], none, st⟩) :=
  ⟨instanceOut_missing s st p, instanceOut_notJson s st p⟩

/-- … so that, over the whole run, the diagnostics on stderr are exactly one per bad file of the
    list (with multiplicity), in order; a file that loads yields none. -/
theorem diagnostics_are_the_bad_files (env : Env) (impl : FmtImpl) (g : Globals) (fuel : Nat) (fs : FS)
    (stdin : FileState) (args : Args) (c : ClassDef) (schema : Json) (st0 : RState) (n : Nat)
    (hs : setup env impl g fuel fs args = .ready c schema st0)
    (hn : (run env impl g fuel fs stdin args).ending = .exit n) :
    (run env impl g fuel fs stdin args).stderr.filter Event.isDiagnostic
      = (paths args).filterMap (diagnosticOf (source fs stdin args)) := by
  rw [(every_instance_processed env impl g fuel fs stdin args c schema st0 n hs hn).1, filter_flatMap']
  rw [outs_flatMap_blind (session env impl fuel fs stdin args c schema)
        (fun o => o.stderr.filter Event.isDiagnostic)
        (fun p => (diagnosticOf (source fs stdin args) p).toList)
        (fun st p => instanceOut_diagnostics _ st p)]
  exact filterMap_eq_flatMap_toList' _ _

/-- **A schema failure stops the run**: schema file missing, not JSON, or rejected by
    `check_schema` ⇒ status 1, exactly one event (on stderr), nothing on stdout … -/
theorem schema_failure_stops (env : Env) (impl : FmtImpl) (g : Globals) (fuel : Nat) (fs : FS)
    (stdin : FileState) (args : Args) :
    (lookupFile fs args.schema = .missing →
      run env impl g fuel fs stdin args = ⟨.exit 1, [.notFound args.schema], []⟩)
    ∧ (lookupFile fs args.schema = .notJson →
      run env impl g fuel fs stdin args = ⟨.exit 1, [.parseError args.schema], []⟩)
    ∧ (∀ schema c e, lookupFile fs args.schema = .json schema → classFor env g args schema = .ok c →
        checkSchema env impl g c fuel schema = .schemaError e →
      run env impl g fuel fs stdin args = ⟨.exit 1, [.schemaError args.schema e], []⟩) := by
  refine ⟨?_, ?_, ?_⟩
  · intro h; simp only [run, setup, h]
  · intro h; simp only [run, setup, h]
  · intro schema c e h1 h2 h3; simp only [run, setup, h1, h2, h3]

/-- … and no instance is touched: whenever the run ends before the loop, its whole result is the
    same whatever the `-i` list, standard input, the output mode and every file other than the
    schema's are. -/
theorem schema_failure_touches_no_instance (env : Env) (impl : FmtImpl) (g : Globals) (fuel : Nat)
    (fs fs' : FS) (stdin stdin' : FileState) (args args' : Args) (r : CliResult)
    (hd : setup env impl g fuel fs args = .done r)
    (hf : lookupFile fs' args.schema = lookupFile fs args.schema)
    (hs : args'.schema = args.schema) (hv : args'.validator = args.validator)
    (hb : args'.baseUri = args.baseUri) :
    run env impl g fuel fs' stdin' args' = r ∧ run env impl g fuel fs stdin args = r
    ∧ r.status = 1 ∧ r.stdout = [] ∧ r.stderr.length ≤ 1 := by
  have h' : setup env impl g fuel fs' args' = .done r := by
    rw [setup_congr env impl g fuel fs fs' args args' hf hs hv hb, hd]
  refine ⟨by simp only [run, h'], by simp only [run, hd], setup_done env impl g fuel fs args r hd⟩

/-- `parse_args`: a (non-empty) `--error-format` is a usage error unless the output is plain;
    plain output always ends up with a format (the default one when none was given); nothing else
    is changed. -/
theorem error_format_plain_only (a : Args) :
    (parseArgs a = .usageError ↔ a.output = .pretty ∧ ∃ f, a.errorFormat = some f ∧ f ≠ [])
    ∧ (∀ a', parseArgs a = .ok a' →
        a'.output = a.output ∧ a'.schema = a.schema ∧ a'.instances = a.instances
        ∧ a'.validator = a.validator ∧ a'.baseUri = a.baseUri
        ∧ (a.output = .plain → a'.errorFormat = some (a.errorFormat.getD defaultErrorFormat))
        ∧ (a.output = .pretty → a'.errorFormat = a.errorFormat)) := by
  unfold parseArgs
  constructor
  · split <;> simp_all
  · intro a' h
    split at h
    · cases h; simp_all
    · split at h
      · cases h; simp_all
      · cases h
    · cases h; simp_all
    · cases h; simp_all

/-! ### tests and non-vacuity (these are *tests*, not the claim)

A small file system, the real registries and the regenerated draft 7 metaschema; the URI
functions are answered by a toy environment that is good enough for `#`-references. -/

namespace Test

def splitHash (u : Str) : Str × Str := (u.takeWhile (· ≠ '#'), (u.dropWhile (· ≠ '#')).drop 1)
def env : Env := { (default : Env) with
  urinorm := fun u => some (if (splitHash u).2 = [] then (splitHash u).1 else u),
  urljoin := fun a b => some (match b with | '#' :: _ => (splitHash a).1 ++ b | [] => a | _ => b),
  urldefrag := fun u => some (splitHash u),
  scheme := fun _ => some [] }
def impl : FmtImpl := ⟨fun _ _ => none⟩
def k (s : String) : Str := s.toList
/-- `{"type": "integer", "minimum": 3}`: the instance `"x"` has one error, `1` one, `1.5` two -/
def schema : Json := .obj [(k "type", .str (k "integer")), (k "minimum", .num (.int 3))]
def fs : FS :=
  [ (k "s.json", .json schema), (k "bad.json", .json (.obj [(k "type", .num (.int 12))])), (k "nj.json", .notJson),
    (k "v1", .json (.num (.int 5))), (k "v2", .json (.num (.int 7))),
    (k "i1", .json (.num (.int 1))), (k "i2", .json (.num (.flt false 3 (-1)))), (k "nj", .notJson) ]
def args (sch : String) (is : List String) (o : OutputMode := .plain) : Args := ⟨k sch, is.map k, o, none, none, none⟩
def go (sch : String) (is : List String) (o : OutputMode := .plain) (stdin : FileState := .missing) : CliResult :=
  run env impl Globals.initial 60 fs stdin (args sch is o)

/-- the kind and path of an event (events carry errors, which have no decidable equality) -/
def shape : Event → String × String
  | .notFound p => ("notFound", String.ofList p)
  | .parseError p => ("parseError", String.ofList p)
  | .validationError p _ => ("validationError", String.ofList p)
  | .schemaError p _ => ("schemaError", String.ofList p)
  | .success p => ("success", String.ofList p)

-- status 0: both sides of `exit_zero_iff` are inhabited
example : (go "s.json" ["v1", "v2"]).status = 0 := by decide +kernel
example : (go "s.json" [] .plain (.json (.num (.int 4)))).status = 0 := by decide +kernel
-- the `|=` mutant: invalid then valid must stay 1; the `return`-in-the-loop mutant: the instances
-- after a bad file, an invalid one and a missing one are all processed, in order
example : (go "s.json" ["i1", "v1"]).status = 1 := by decide +kernel
example : (go "s.json" ["v1", "nj", "i2", "zz", "i1", "v2"] .pretty).stderr.map shape
    = [("parseError", "nj"), ("validationError", "i2"), ("validationError", "i2"), ("notFound", "zz"),
       ("validationError", "i1")] := by decide +kernel
example : (go "s.json" ["v1", "nj", "i2", "zz", "i1", "v2"] .pretty).stdout.map shape
    = [("success", "v1"), ("success", "v2")] := by decide +kernel
example : (go "s.json" ["v1", "nj", "i2", "zz", "i1", "v2"] .pretty).status = 1 := by decide +kernel
-- hypotheses of `every_instance_processed` / `status_is_or` hold on that run
example : ∃ c st0 n, setup env impl Globals.initial 60 fs (args "s.json" ["v1", "nj", "i2"]) = .ready c schema st0
    ∧ (go "s.json" ["v1", "nj", "i2"]).ending = .exit n := by
  have h : (match setup env impl Globals.initial 60 fs (args "s.json" ["v1", "nj", "i2"]) with
            | .ready _ s _ => s == schema | _ => false) = true
      ∧ (match (go "s.json" ["v1", "nj", "i2"]).ending with | .exit n => n == 1 | _ => false) = true := by
    decide +kernel
  obtain ⟨h1, h2⟩ := h
  cases hs : setup env impl Globals.initial 60 fs (args "s.json" ["v1", "nj", "i2"]) with
  | done r => simp [hs] at h1
  | ready c s st0 =>
    cases he : (go "s.json" ["v1", "nj", "i2"]).ending with
    | escaped x => simp [he] at h2
    | exit n =>
      have : s = schema := by
        rw [hs] at h1
        have : (s == schema) = true := h1
        exact (decide_eq_true_iff.1 (by simpa [BEq.beq] using this))
      exact ⟨c, st0, n, by rw [this], rfl⟩
-- plain mode: a success event, empty text; pretty mode: one header per valid instance
example : stdoutText .plain (go "s.json" ["v1", "i1", "v2"]).stdout = [] := by decide +kernel
example : stdoutText .pretty (go "s.json" ["v1", "i1", "v2"] .pretty).stdout
    = "===[SUCCESS]===(v1)===\n===[SUCCESS]===(v2)===\n".toList := by decide +kernel
-- stdin
example : (go "s.json" [] .plain .notJson).stderr.map shape = [("parseError", "<stdin>")] := by decide +kernel
-- schema failures: one event, status 1, the instances untouched
example : ((go "nope.json" ["v1", "i1"]).stderr.map shape, (go "nope.json" ["v1", "i1"]).status)
    = ([("notFound", "nope.json")], 1) := by decide +kernel
example : ((go "nj.json" ["v1", "i1"]).stderr.map shape, (go "nj.json" ["v1", "i1"]).status)
    = ([("parseError", "nj.json")], 1) := by decide +kernel
example : ((go "bad.json" ["v1", "i1"] .pretty).stderr.map shape, (go "bad.json" ["v1", "i1"] .pretty).stdout.map shape,
           (go "bad.json" ["v1", "i1"] .pretty).status)
    = ([("schemaError", "bad.json")], [], 1) := by decide +kernel
-- order independence: its hypothesis holds for a boolean schema (no state is ever consulted)
example (s : Session) (hs : s.schema = .bool false) (hf : s.fuel = 1) (p : Str) (st st' : RState) :
    (instanceOut s st p).clean = (instanceOut s st' p).clean := by
  unfold instanceOut
  cases s.source p <;> simp [InstOut.clean, InstOut.failed, hs, hf, eval, evalStep, emit, validated]
-- parse_args
example : parseArgs ⟨k "s", [], .pretty, some (k "{error.message}"), none, none⟩ = .usageError := by
  simp [parseArgs, k]
example : ∃ a, parseArgs ⟨k "s", [], .plain, none, none, none⟩ = .ok a ∧ a.errorFormat = some defaultErrorFormat :=
  ⟨_, rfl, rfl⟩

end Test

end JS.Props.C19
