/-
  C20 — the draft is chosen from `$schema`, consistently in validate() and helpers.
  Property theorems only; helper lemmas live in JS/Proofs/Selection.lean.
  Model: `Globals`, `validates`, `validatorFor`, `moduleValidate`, `checkSchema` (JS.Module); the
  initial registries are REGENERATED from the Python source (JS/Generated/Tables.lean).
-/
import JS.Proofs.Selection
namespace JS.Props.C20
open JS

/-- a `$schema` equal (after URI normalisation) to a registered metaschema id selects that class,
    without warning -/
theorem select_registered (env : Env) (g : Globals) (dflt c : ClassDef) (kvs : List (Str × Json))
    (u k : Str) (hs : Json.lookup (skey "$schema") kvs = some (.str u)) (hn : env.urinorm u = some k)
    (hr : lookupS k g.metaSchemas = some c) :
    validatorFor env g dflt (.obj kvs) = .ok (c, false) := by
  unfold validatorFor
  simp only [hs, hn, hr]

/-- a missing `$schema` or a boolean schema selects the default the caller passes -/
theorem select_default (env : Env) (g : Globals) (dflt : ClassDef) :
    (∀ b, validatorFor env g dflt (.bool b) = .ok (dflt, false))
    ∧ (∀ kvs, Json.lookup (skey "$schema") kvs = none → validatorFor env g dflt (.obj kvs) = .ok (dflt, false)) := by
  refine ⟨fun b => rfl, fun kvs h => ?_⟩
  unfold validatorFor
  simp only [h]

/-- an unrecognised URI selects the latest draft (not the caller's default), with a warning -/
theorem select_unknown (env : Env) (g : Globals) (dflt : ClassDef) (kvs : List (Str × Json))
    (u k : Str) (hs : Json.lookup (skey "$schema") kvs = some (.str u)) (hn : env.urinorm u = some k)
    (hr : lookupS k g.metaSchemas = none) :
    validatorFor env g dflt (.obj kvs) = .ok (g.latest, true) := by
  unfold validatorFor
  simp only [hs, hn, hr]

/-- `jsonschema.validate` without a class behaves exactly as with the class `validator_for` selects -/
theorem validate_as_selected (env : Env) (impl : FmtImpl) (g : Globals) (fuel : Nat) (weak strong : List Str)
    (fc : Option FormatChecker) (inst schema : Json) (c : ClassDef) (w : Bool)
    (h : validatorFor env g g.latest schema = .ok (c, w)) :
    (moduleValidate env impl g fuel weak strong none fc inst schema).1
      = (moduleValidate env impl g fuel weak strong (some c) fc inst schema).1 := by
  rw [moduleValidate_none env impl g fuel weak strong fc inst schema c w h, moduleValidate_some]
  exact moduleBody_fst env impl g fuel weak strong fc inst schema c w false

/-- an explicitly given class always wins: the registries are not consulted for the selection -/
theorem explicit_class_wins (env : Env) (impl : FmtImpl) (g g' : Globals) (fuel : Nat) (weak strong : List Str)
    (fc : Option FormatChecker) (inst schema : Json) (c : ClassDef)
    (hm : g.metaSchemas.map (fun p => (p.1, p.2.metaSchema)) = g'.metaSchemas.map (fun p => (p.1, p.2.metaSchema))) :
    moduleValidate env impl g fuel weak strong (some c) fc inst schema
      = moduleValidate env impl g' fuel weak strong (some c) fc inst schema := by
  rw [moduleValidate_some, moduleValidate_some]
  exact moduleBody_congr env impl g g' fuel weak strong fc inst schema c false hm

/-- registering a class whose metaschema id is not yet registered makes it selectable by that id
    and disturbs no existing registration.

    FALSE as stated since the id function answers `""` for a schema with a `$ref` key (commit
    070708b: an id next to `$ref` is ignored — `validates` reads the metaschema's id through the
    same function): a metaschema with an id written next to a `$ref` key is registered by version
    name only (`register_new_id_preserves_counterexample`).  It holds for metaschemas without a
    `$ref` key (`register_new_id_preserves_partial`), as all bundled ones are. -/
def register_new_id_preserves_statement : Prop :=
    ∀ (env : Env) (g g' : Globals) (version : Str) (c : ClassDef)
    (kvs : List (Str × Json)) (u k : Str)
    (_hm : c.metaSchema = .obj kvs) (_hid : Json.lookup c.cfg.idKey kvs = some (.str u)) (_hne : u ≠ [])
    (_hn : env.urinorm u = some k) (_hnew : lookupS k g.metaSchemas = none)
    (_hv : validates env version c g = .ok g'),
    lookupS k g'.metaSchemas = some c
    ∧ (∀ k' c', lookupS k' g.metaSchemas = some c' → lookupS k' g'.metaSchemas = some c')
    ∧ g'.latest = g.latest

theorem register_new_id_preserves_counterexample : ¬ register_new_id_preserves_statement := by
  intro h
  have h1 := (h RegCex.env RegCex.g RegCex.g' (skey "v") RegCex.cls RegCex.kvs (skey "urn:x") (skey "urn:x")
    rfl RegCex.hid RegCex.hne rfl rfl RegCex.hv).1
  cases h1

/-- the statement with the missing hypothesis made explicit: the metaschema has no `$ref` key -/
theorem register_new_id_preserves_partial (env : Env) (g g' : Globals) (version : Str) (c : ClassDef)
    (kvs : List (Str × Json)) (u k : Str)
    (hm : c.metaSchema = .obj kvs) (hid : Json.lookup c.cfg.idKey kvs = some (.str u)) (hne : u ≠ [])
    (hnr : Json.hasKey (skey "$ref") kvs = false)
    (hn : env.urinorm u = some k) (hnew : lookupS k g.metaSchemas = none)
    (hv : validates env version c g = .ok g') :
    lookupS k g'.metaSchemas = some c
    ∧ (∀ k' c', lookupS k' g.metaSchemas = some c' → lookupS k' g'.metaSchemas = some c')
    ∧ g'.latest = g.latest := by
  rw [validates_with_id env g version c kvs u k hm hid hne hnr hn] at hv
  cases hv
  refine ⟨lookupS_replace_self k c g.metaSchemas, fun k' c' h' => ?_, rfl⟩
  have hk : k' ≠ k := fun e => by rw [e, hnew] at h'; cases h'
  exact lookupS_replace_other k k' c c' g.metaSchemas hk h'

/-- the registries as the import leaves them: the four draft ids select the four drafts, and the
    latest draft is draft 7 (re-checked against the regenerated tables) -/
theorem initial_registry :
    (Globals.initial.metaSchemas.map fun p => (p.1, p.2.name))
      = [ ("http://json-schema.org/draft-03/schema".toList, "d3"), ("http://json-schema.org/draft-04/schema".toList, "d4"),
          ("http://json-schema.org/draft-06/schema".toList, "d6"), ("http://json-schema.org/draft-07/schema".toList, "d7") ]
    ∧ Globals.initial.latest.name = "d7" := by
  exact ⟨initial_metaSchemas_names, initial_latest_name⟩

/-- each bundled metaschema carries the id it is registered under (with the empty fragment the
    draft specifications use), so a schema declaring that `$schema` selects that draft once
    `urinorm` drops the empty fragment (tested URI fact A-url) -/
theorem metaschema_ids :
    (Draft.all.map fun d => Json.lookup d.idKey (match d.metaSchema with | .obj kvs => kvs | _ => []))
      = [ some (.str "http://json-schema.org/draft-03/schema#".toList), some (.str "http://json-schema.org/draft-04/schema#".toList),
          some (.str "http://json-schema.org/draft-06/schema#".toList), some (.str "http://json-schema.org/draft-07/schema#".toList) ] := by
  decide +kernel

/-- no bundled metaschema has a `$ref` key at its top, so each is registered by its id -/
theorem metaschemas_no_ref :
    (Draft.all.map fun d => Json.hasKey (skey "$ref") (match d.metaSchema with | .obj kvs => kvs | _ => []))
      = [false, false, false, false] := by
  decide +kernel

end JS.Props.C20
