/-
  Source tie — the model's keyword functions ARE the Python source.

  `harness/translate.py` regenerates, on every run, `JS/Generated/Source.lean` from the working tree's
  `jsonschema/_validators.py` and `_legacy_validators.py` (one `JS.Py.Fn` term per keyword function;
  `JS/Py/IR.lean`), and `JS.Py.Fn.run` (`JS/Py/Interp.lean`) gives those terms Python's meaning; the
  functions outside that first subset are regenerated as `JS.Py.Fn2` terms of a richer second subset
  (`JS/Py/IR2.lean`: `for … else`, `break`, `enumerate`, errors with a `context`, generator
  expressions, and the resolver statements of `ref`: `resolve`, `push_scope`, `try … finally: pop_scope()`;
  meaning `JS.Py.Fn2.run`, `JS/Py/Interp2.lean`). 37 of the 40 keyword functions are
  translated: 32 in the first subset (`tie_<fn>`), 5 in the second (`tie2_<fn>`: anyOf, oneOf,
  properties_draft3, type_draft3, ref). The theorems below say, for each of the 37 translated functions,
  that the interpreted source and the hand-written model function (`JS/Keywords.lean`, about which every property theorem is proved) are
  the SAME generator: for every oracle environment, draft class, format checker, recursive call,
  keyword value, instance and enclosing schema. A change to the body of one of these functions that
  changes its behaviour on any input therefore breaks one of these theorems on the next run.

  Hypotheses: where the interpreter (following Python) and the model differ on keyword values that
  the draft's metaschema forbids (a string where an array is required: Python iterates over its
  characters, the model says TypeError), the theorem carries the shape the metaschema demands
  (`Spec.shapeClause`); `…_needs_shape` theorems show the hypothesis is necessary. `schema.isObj`
  holds wherever a keyword function is called (`schemaBody` passes `.obj kvs`).
  Helper lemmas: JS/Proofs/TieBase.lean, TieA.lean, TieB.lean, TieC.lean, TieD.lean (`type` and
  `additionalItems`, whose source uses `a[n:]`, `enumerate(x, start=n)` and the message helpers
  `types_msg` / `extras_msg` of `_utils`); Tie2J.lean (`anyOf`, `type_draft3`) and Tie2K.lean (`oneOf`,
  `properties_draft3`) and Tie2M.lean (`ref`; the model function is `kwRef` of JS/Resolver.lean) for the
  second subset; TieCompose.lean for the
  composition (the two evaluators are equal on shaped schemas; last section).

  Not translated (outside both subsets; tied by the differential correspondence only):
  additionalProperties, multipleOf, format.
-/
import JS.Proofs.TieA
import JS.Proofs.TieB
import JS.Proofs.TieC
import JS.Proofs.TieD
import JS.Proofs.Tie2J
import JS.Proofs.Tie2K
import JS.Proofs.Tie2M
import JS.Proofs.TieCompose
namespace JS.Props.Tie
open JS JS.Py JS.Generated.Source

theorem tie_const (env : Env) (d : Draft) (fc : Option FormatChecker) (rec : Rec) (v inst schema : Json) :
    Fn.run env (d.cfg fc) rec src_const v inst schema = kwConst v inst :=
  JS.Tie.tie_const env d fc rec v inst schema

theorem tie_enum (env : Env) (d : Draft) (fc : Option FormatChecker) (rec : Rec) (v inst schema : Json) (hv : v.isArr = true) :
    Fn.run env (d.cfg fc) rec src_enum v inst schema = kwEnum v inst :=
  JS.Tie.tie_enum env d fc rec v inst schema hv

theorem tie_exclusiveMinimum (env : Env) (d : Draft) (fc : Option FormatChecker) (rec : Rec) (v inst schema : Json) :
    Fn.run env (d.cfg fc) rec src_exclusiveMinimum v inst schema = kwExclusiveMinimum (d.cfg fc) v inst :=
  JS.Tie.tie_exclusiveMinimum env d fc rec v inst schema

theorem tie_exclusiveMaximum (env : Env) (d : Draft) (fc : Option FormatChecker) (rec : Rec) (v inst schema : Json) :
    Fn.run env (d.cfg fc) rec src_exclusiveMaximum v inst schema = kwExclusiveMaximum (d.cfg fc) v inst :=
  JS.Tie.tie_exclusiveMaximum env d fc rec v inst schema

theorem tie_minimum (env : Env) (d : Draft) (fc : Option FormatChecker) (rec : Rec) (v inst schema : Json) :
    Fn.run env (d.cfg fc) rec src_minimum v inst schema = kwMinimum (d.cfg fc) v inst :=
  JS.Tie.tie_minimum env d fc rec v inst schema

theorem tie_maximum (env : Env) (d : Draft) (fc : Option FormatChecker) (rec : Rec) (v inst schema : Json) :
    Fn.run env (d.cfg fc) rec src_maximum v inst schema = kwMaximum (d.cfg fc) v inst :=
  JS.Tie.tie_maximum env d fc rec v inst schema

theorem tie_minimum_draft3_draft4 (env : Env) (d : Draft) (fc : Option FormatChecker) (rec : Rec) (v inst schema : Json) (hs : schema.isObj = true) :
    Fn.run env (d.cfg fc) rec src_minimum_draft3_draft4 v inst schema = kwMinimumDraft3Draft4 (d.cfg fc) v inst schema :=
  JS.Tie.tie_minimum_draft3_draft4 env d fc rec v inst schema hs

theorem tie_maximum_draft3_draft4 (env : Env) (d : Draft) (fc : Option FormatChecker) (rec : Rec) (v inst schema : Json) (hs : schema.isObj = true) :
    Fn.run env (d.cfg fc) rec src_maximum_draft3_draft4 v inst schema = kwMaximumDraft3Draft4 (d.cfg fc) v inst schema :=
  JS.Tie.tie_maximum_draft3_draft4 env d fc rec v inst schema hs

theorem tie_minItems (env : Env) (d : Draft) (fc : Option FormatChecker) (rec : Rec) (v inst schema : Json) :
    Fn.run env (d.cfg fc) rec src_minItems v inst schema = kwMinItems (d.cfg fc) v inst :=
  JS.Tie.tie_minItems env d fc rec v inst schema

theorem tie_maxItems (env : Env) (d : Draft) (fc : Option FormatChecker) (rec : Rec) (v inst schema : Json) :
    Fn.run env (d.cfg fc) rec src_maxItems v inst schema = kwMaxItems (d.cfg fc) v inst :=
  JS.Tie.tie_maxItems env d fc rec v inst schema

theorem tie_minLength (env : Env) (d : Draft) (fc : Option FormatChecker) (rec : Rec) (v inst schema : Json) :
    Fn.run env (d.cfg fc) rec src_minLength v inst schema = kwMinLength (d.cfg fc) v inst :=
  JS.Tie.tie_minLength env d fc rec v inst schema

theorem tie_maxLength (env : Env) (d : Draft) (fc : Option FormatChecker) (rec : Rec) (v inst schema : Json) :
    Fn.run env (d.cfg fc) rec src_maxLength v inst schema = kwMaxLength (d.cfg fc) v inst :=
  JS.Tie.tie_maxLength env d fc rec v inst schema

theorem tie_minProperties (env : Env) (d : Draft) (fc : Option FormatChecker) (rec : Rec) (v inst schema : Json) :
    Fn.run env (d.cfg fc) rec src_minProperties v inst schema = kwMinProperties (d.cfg fc) v inst :=
  JS.Tie.tie_minProperties env d fc rec v inst schema

theorem tie_maxProperties (env : Env) (d : Draft) (fc : Option FormatChecker) (rec : Rec) (v inst schema : Json) :
    Fn.run env (d.cfg fc) rec src_maxProperties v inst schema = kwMaxProperties (d.cfg fc) v inst :=
  JS.Tie.tie_maxProperties env d fc rec v inst schema

theorem tie_uniqueItems (env : Env) (d : Draft) (fc : Option FormatChecker) (rec : Rec) (v inst schema : Json) :
    Fn.run env (d.cfg fc) rec src_uniqueItems v inst schema = kwUniqueItems (d.cfg fc) v inst :=
  JS.Tie.tie_uniqueItems env d fc rec v inst schema

theorem tie_pattern (env : Env) (d : Draft) (fc : Option FormatChecker) (rec : Rec) (v inst schema : Json) :
    Fn.run env (d.cfg fc) rec src_pattern v inst schema = kwPattern env (d.cfg fc) v inst :=
  JS.Tie.tie_pattern env d fc rec v inst schema

theorem tie_required (env : Env) (d : Draft) (fc : Option FormatChecker) (rec : Rec) (v inst schema : Json) (hs : v.isStr = false) (ho : v.isObj = false) :
    Fn.run env (d.cfg fc) rec src_required v inst schema = kwRequired (d.cfg fc) v inst :=
  JS.Tie.tie_required env d fc rec v inst schema hs ho

theorem tie_properties (env : Env) (d : Draft) (fc : Option FormatChecker) (rec : Rec) (v inst schema : Json) :
    Fn.run env (d.cfg fc) rec src_properties v inst schema = kwProperties (d.cfg fc) rec v inst :=
  JS.Tie.tie_properties env d fc rec v inst schema

theorem tie_patternProperties (env : Env) (d : Draft) (fc : Option FormatChecker) (rec : Rec) (v inst schema : Json) :
    Fn.run env (d.cfg fc) rec src_patternProperties v inst schema = kwPatternProperties env (d.cfg fc) rec v inst :=
  JS.Tie.tie_patternProperties env d fc rec v inst schema

theorem tie_propertyNames (env : Env) (d : Draft) (fc : Option FormatChecker) (rec : Rec) (v inst schema : Json) :
    Fn.run env (d.cfg fc) rec src_propertyNames v inst schema = kwPropertyNames (d.cfg fc) rec v inst :=
  JS.Tie.tie_propertyNames env d fc rec v inst schema

theorem tie_dependencies (env : Env) (d : Draft) (fc : Option FormatChecker) (rec : Rec) (v inst schema : Json) :
    Fn.run env (d.cfg fc) rec src_dependencies v inst schema = kwDependencies (d.cfg fc) rec v inst :=
  JS.Tie.tie_dependencies env d fc rec v inst schema

theorem tie_dependencies_draft3 (env : Env) (d : Draft) (fc : Option FormatChecker) (rec : Rec) (v inst schema : Json) :
    Fn.run env (d.cfg fc) rec src_dependencies_draft3 v inst schema = kwDependenciesDraft3 (d.cfg fc) rec v inst :=
  JS.Tie.tie_dependencies_draft3 env d fc rec v inst schema

theorem tie_allOf (env : Env) (d : Draft) (fc : Option FormatChecker) (rec : Rec) (v inst schema : Json) (hs : v.isStr = false) (ho : v.isObj = false) :
    Fn.run env (d.cfg fc) rec src_allOf v inst schema = kwAllOf rec v inst :=
  JS.Tie.tie_allOf env d fc rec v inst schema hs ho

theorem tie_items (env : Env) (d : Draft) (fc : Option FormatChecker) (rec : Rec) (v inst schema : Json) :
    Fn.run env (d.cfg fc) rec src_items v inst schema = kwItems (d.cfg fc) rec v inst :=
  JS.Tie.tie_items env d fc rec v inst schema

theorem tie_items_draft3_draft4 (env : Env) (d : Draft) (fc : Option FormatChecker) (rec : Rec) (v inst schema : Json) (hv : v.isStr = false) :
    Fn.run env (d.cfg fc) rec src_items_draft3_draft4 v inst schema = kwItemsDraft3Draft4 (d.cfg fc) rec v inst :=
  JS.Tie.tie_items_draft3_draft4 env d fc rec v inst schema hv

theorem tie_contains (env : Env) (d : Draft) (fc : Option FormatChecker) (rec : Rec) (v inst schema : Json) :
    Fn.run env (d.cfg fc) rec src_contains v inst schema = kwContains (d.cfg fc) rec v inst :=
  JS.Tie.tie_contains env d fc rec v inst schema

theorem tie_not_ (env : Env) (d : Draft) (fc : Option FormatChecker) (rec : Rec) (v inst schema : Json) :
    Fn.run env (d.cfg fc) rec src_not_ v inst schema = kwNot rec v inst :=
  JS.Tie.tie_not_ env d fc rec v inst schema

theorem tie_if_ (env : Env) (d : Draft) (fc : Option FormatChecker) (rec : Rec) (v inst schema : Json) (hs : schema.isObj = true) :
    Fn.run env (d.cfg fc) rec src_if_ v inst schema = kwIf rec v inst schema :=
  JS.Tie.tie_if_ env d fc rec v inst schema hs

theorem tie_disallow_draft3 (env : Env) (d : Draft) (fc : Option FormatChecker) (rec : Rec) (v inst schema : Json) :
    Fn.run env (d.cfg fc) rec src_disallow_draft3 v inst schema = kwDisallowDraft3 rec v inst :=
  JS.Tie.tie_disallow_draft3 env d fc rec v inst schema

theorem tie_extends_draft3 (env : Env) (d : Draft) (fc : Option FormatChecker) (rec : Rec) (v inst schema : Json) (hv : v.isStr = false) :
    Fn.run env (d.cfg fc) rec src_extends_draft3 v inst schema = kwExtendsDraft3 (d.cfg fc) rec v inst :=
  JS.Tie.tie_extends_draft3 env d fc rec v inst schema hv

theorem tie_type (env : Env) (d : Draft) (fc : Option FormatChecker) (rec : Rec) (v inst schema : Json) :
    Fn.run env (d.cfg fc) rec src_type v inst schema = kwType (d.cfg fc) v inst :=
  JS.Tie.tie_type env d fc rec v inst schema

theorem tie_additionalItems (env : Env) (d : Draft) (fc : Option FormatChecker) (rec : Rec) (v inst schema : Json) (hs : schema.isObj = true) :
    Fn.run env (d.cfg fc) rec src_additionalItems v inst schema = kwAdditionalItems (d.cfg fc) rec v inst schema :=
  JS.Tie.tie_additionalItems env d fc rec v inst schema hs

/-! second subset (`JS.Py.Fn2`, `Fn2.run`) -/

theorem tie2_anyOf (env : Env) (d : Draft) (fc : Option FormatChecker) (rec : Rec) (v inst schema : Json) (hv : ∃ ss, v = .arr ss) :
    Fn2.run env (d.cfg fc) rec src2_anyOf v inst schema = kwAnyOf rec v inst :=
  JS.Tie.tie2_anyOf env d fc rec v inst schema hv

theorem tie2_oneOf (env : Env) (d : Draft) (fc : Option FormatChecker) (rec : Rec) (v inst schema : Json) (hv : ∃ ss, v = .arr ss) :
    Fn2.run env (d.cfg fc) rec src2_oneOf v inst schema = kwOneOf rec v inst :=
  JS.Tie.tie2_oneOf env d fc rec v inst schema hv

theorem tie2_properties_draft3 (env : Env) (d : Draft) (fc : Option FormatChecker) (rec : Rec) (v inst schema : Json) :
    Fn2.run env (d.cfg fc) rec src2_properties_draft3 v inst schema = kwPropertiesDraft3 (d.cfg fc) rec v inst schema :=
  JS.Tie.tie2_properties_draft3 env d fc rec v inst schema

theorem tie2_type_draft3 (env : Env) (d : Draft) (fc : Option FormatChecker) (rec : Rec) (v inst schema : Json) :
    Fn2.run env (d.cfg fc) rec src2_type_draft3 v inst schema = kwTypeDraft3 (d.cfg fc) rec v inst :=
  JS.Tie.tie2_type_draft3 env d fc rec v inst schema

/-- `$ref` (no hypothesis on the value: on a non-string both sides read it through `refReading`): the
    same generator for every budget and every resolver state — the same oracle queries in the same
    states, the scope popped on every exit -/
theorem tie2_ref (env : Env) (d : Draft) (fc : Option FormatChecker) (rec : Rec) (v inst schema : Json) :
    Fn2.run env (d.cfg fc) rec src2_ref v inst schema = kwRef env rec v inst :=
  JS.Tie.tie2_ref env d fc rec v inst schema

/-- the shape hypotheses are necessary: on keyword values the metaschemas forbid, the Python source
    (iterating over a string's characters, over a dict's keys) and the model (TypeError) differ -/
theorem tie_enum_needs_shape :
    ¬ ∀ (env : Env) (d : Draft) (fc : Option FormatChecker) (rec : Rec) (v inst schema : Json),
      Fn.run env (d.cfg fc) rec src_enum v inst schema = kwEnum v inst := JS.Tie.tie_enum_needs_shape
theorem tie_required_needs_shape :
    ¬ ∀ (env : Env) (d : Draft) (fc : Option FormatChecker) (rec : Rec) (v inst schema : Json),
      Fn.run env (d.cfg fc) rec src_required v inst schema = kwRequired (d.cfg fc) v inst := JS.Tie.tie_required_needs_shape
theorem tie_if_needs_shape :
    ¬ ∀ (env : Env) (d : Draft) (fc : Option FormatChecker) (rec : Rec) (v inst schema : Json),
      Fn.run env (d.cfg fc) rec src_if_ v inst schema = kwIf rec v inst schema := JS.Tie.tie_if__needs_shape

theorem tie_additionalItems_needs_shape :
    ¬ ∀ (env : Env) (d : Draft) (fc : Option FormatChecker) (rec : Rec) (v inst schema : Json),
      Fn.run env (d.cfg fc) rec src_additionalItems v inst schema = kwAdditionalItems (d.cfg fc) rec v inst schema :=
  JS.Tie.tie_additionalItems_needs_shape

/-- `anyOf: ""` / `oneOf: {}`: Python enumerates the (zero) characters / keys and reports that no branch
    was valid; the model says TypeError. Every metaschema demands an array. -/
theorem tie2_anyOf_needs_shape :
    ¬ ∀ (env : Env) (d : Draft) (fc : Option FormatChecker) (rec : Rec) (v inst schema : Json),
      Fn2.run env (d.cfg fc) rec src2_anyOf v inst schema = kwAnyOf rec v inst := JS.Tie.tie2_anyOf_needs_shape
theorem tie2_oneOf_needs_shape :
    ¬ ∀ (env : Env) (d : Draft) (fc : Option FormatChecker) (rec : Rec) (v inst schema : Json),
      Fn2.run env (d.cfg fc) rec src2_oneOf v inst schema = kwOneOf rec v inst := JS.Tie.tie2_oneOf_needs_shape

/-- non-vacuity: the interpreted source of `minItems` on a concrete instance yields one error, as the
    model does -/
example : (Fn.run default (Draft.d7.cfg none) (fun _ _ => nothing) src_minItems (jnat 2) (.arr [.null]) (.obj []) none default).errs.length = 1 := by
  rw [tie_minItems]; decide +kernel

/-- non-vacuity: `type` with a list of names none of which fits yields one error; `additionalItems:
    false` beside a one-element `items` array on a three-element instance yields one error, and a
    schema for the additional items is applied to exactly the two extra elements -/
example : (Fn.run default (Draft.d7.cfg none) (fun _ _ => nothing) src_type
    (.arr [.str (skey "string"), .str (skey "null")]) (jnat 1) (.obj []) none default).errs.length = 1 := by
  rw [tie_type]; decide +kernel
example : (Fn.run default (Draft.d7.cfg none) (fun _ _ => nothing) src_additionalItems (.bool false)
    (.arr [jnat 1, jnat 2, jnat 3]) (.obj [(skey "items", .arr [.obj []])]) none default).errs.length = 1 := by
  rw [tie_additionalItems _ _ _ _ _ _ _ rfl]; decide +kernel
example : (Fn.run default (Draft.d7.cfg none) (fun _ _ => emit [Err.fresh "x" []]) src_additionalItems (.obj [])
    (.arr [jnat 1, jnat 2, jnat 3]) (.obj [(skey "items", .arr [.obj []])]) none default).errs.length = 2 := by
  rw [tie_additionalItems _ _ _ _ _ _ _ rfl]; decide +kernel

/-- non-vacuity, second subset: `anyOf` with two branches on an instance failing both yields ONE error
    carrying the two branch errors as its context; `oneOf` with two branches both of which accept the
    instance yields one error ("valid under each of") -/
example : ((Fn2.run default (Draft.d7.cfg none) (fun _ _ => emit [Err.fresh "x" []]) src2_anyOf
    (.arr [.obj [], .obj []]) (jnat 1) (.obj []) none default).errs.map (fun e => e.context.length)) = [2] := by
  rw [tie2_anyOf _ _ _ _ _ _ _ ⟨_, rfl⟩]; decide +kernel
example : (Fn2.run default (Draft.d7.cfg none) (fun _ _ => nothing) src2_oneOf
    (.arr [.obj [], .obj []]) (jnat 1) (.obj []) none default).errs.length = 1 := by
  rw [tie2_oneOf _ _ _ _ _ _ _ ⟨_, rfl⟩]; decide +kernel

/-! ### composition: the two evaluators are equal on every schema of the prescribed shape

`Py.evalSrc` runs the interpreted source of every translated keyword function, `eval` the model's
functions. On a schema object of the shape the draft's metaschema prescribes (`Spec.shapedR`,
references allowed), every member's key is bound by the REGENERATED keyword table
(`Draft.keywords`) to a function whose tie theorem (first or second subset) applies — its shape hypothesis is what
`Spec.shapedN` demands of that member (`NoCrash.table_ok`, `NoCrash.interp`) — so one layer of the
two evaluators is the same generator whatever the recursive call. References may designate
non-schemas, so the full statement is about the GUARDED evaluators (as C03); for reference-free
schemas, and whenever the guard does not fire, it is about the evaluators themselves.
Helper lemmas: JS/Proofs/TieCompose.lean. -/

/-- the guarded evaluator over the interpreted source -/
def evalSrcG (env : Env) (impl : FmtImpl) (d : Draft) (fc : Option FormatChecker) : Nat → Rec
  | 0 => fun _ _ => stopG .fuel
  | n + 1 => Py.evalStepSrc env impl (d.cfg fc) (Props.C03.guardRec d (evalSrcG env impl d fc n))

/-- one member of a shaped schema object (`NoCrash.interp … (NoCrash.branchOf d k) v` is what
    `Spec.shapedN` demands of the member `(k, v)`): the interpreted source of the function bound to
    `k` is the model's function -/
theorem applyKwSrc_eq_applyKw (env : Env) (impl : FmtImpl) (d : Draft) (fc : Option FormatChecker)
    (rec : Rec) (refs : Bool) (n : Nat) (k : Str) (v : Json) (f : KwFn)
    (hf : lookupS k (d.cfg fc).keywords = some f)
    (hv : NoCrash.interp refs d n (NoCrash.branchOf d k) v = true)
    (inst : Json) (kvs : List (Str × Json)) :
    applyKwSrc env impl (d.cfg fc) rec f v inst (.obj kvs) = applyKw env impl (d.cfg fc) rec f v inst (.obj kvs) :=
  JS.Tie.applyKwSrc_eq_applyKw env impl d fc rec (NoCrash.expected_of_lookup hf) hv inst kvs

/-- **One layer.** On a shaped schema (references allowed) one layer of the evaluator over the
    interpreted source is one layer of the model's evaluator, for ANY recursive call. -/
theorem evalStepSrc_eq_evalStep (env : Env) (impl : FmtImpl) (d : Draft) (fc : Option FormatChecker)
    (rec : Rec) (i s : Json) (hs : Spec.shapedR d s = true) :
    evalStepSrc env impl (d.cfg fc) rec i s = evalStep env impl (d.cfg fc) rec i s :=
  JS.Tie.evalStepSrc_eq_evalStep env impl d fc rec i s hs

/-- **Composition (guarded evaluators).** On every shaped schema, for every fuel and instance, the
    guarded evaluator over the interpreted source IS the guarded model evaluator (as generators:
    every budget, every resolver state). -/
theorem evalSrcG_eq_evalG (env : Env) (impl : FmtImpl) (d : Draft) (fc : Option FormatChecker) (n : Nat) :
    ∀ (i s : Json), Spec.shapedR d s = true →
      evalSrcG env impl d fc n i s = Props.C03.evalG env impl d fc n i s := by
  induction n with
  | zero => intro i s _; rfl
  | succ n ih =>
    intro i s hs
    show evalStepSrc env impl (d.cfg fc) (Props.C03.guardRec d (evalSrcG env impl d fc n)) i s
      = evalStep env impl (d.cfg fc) (Props.C03.guardRec d (Props.C03.evalG env impl d fc n)) i s
    rw [JS.Tie.guardRec_congr d _ _ ih]
    exact evalStepSrc_eq_evalStep env impl d fc _ i s hs

/-- **Composition, reference-free schemas.** The evaluators themselves are equal. -/
theorem evalSrc_eq_eval_reffree (env : Env) (impl : FmtImpl) (d : Draft) (fc : Option FormatChecker)
    (n : Nat) (i s : Json) (hs : Spec.shaped d s = true) :
    Py.evalSrc env impl (d.cfg fc) n i s = eval env impl (d.cfg fc) n i s :=
  JS.Tie.evalSrc_eq_eval_good env impl d fc n i s ⟨_, hs⟩

/-- **Composition, with references.** On a shaped schema the evaluators themselves give the same
    run, unless some reference met on the way designates something that is not a schema (the
    guard of C03 fires). -/
theorem evalSrc_eq_eval (env : Env) (impl : FmtImpl) (d : Draft) (fc : Option FormatChecker)
    (n : Nat) (i s : Json) (hs : Spec.shapedR d s = true) (b : Option Nat) (st : RState) :
    (Props.C03.evalG env impl d fc n i s b st).stop = .raised Props.C03.unshapedTarget
    ∨ Py.evalSrc env impl (d.cfg fc) n i s b st = eval env impl (d.cfg fc) n i s b st := by
  rcases JS.Tie.evalG_RU_evalSrc env impl d fc n i s hs b st with h | h
  · exact .inl h
  · rcases Props.C03.guard_simulation env impl d fc n i s b st with h' | h'
    · exact .inl h'
    · exact .inr (h.symm.trans h')

/-- non-vacuity: a Draft 7 schema with eight translated keywords … -/
def exSchema : Json :=
  .obj [(skey "type", .str (skey "object")),
        (skey "properties", .obj [(skey "a", .obj [(skey "type", .str (skey "array")),
                                                   (skey "minItems", jnat 2),
                                                   (skey "items", .obj [(skey "enum", .arr [jnat 1, jnat 2])])])]),
        (skey "required", .arr [.str (skey "a"), .str (skey "b")])]
def exInst : Json := .obj [(skey "a", .arr [jnat 3])]

theorem exSchema_shaped : Spec.shaped .d7 exSchema = true := by decide +kernel

/-- … on which the run of the interpreted source is the model's run, with three errors -/
example : (Py.evalSrc default ⟨fun _ _ => none⟩ (Draft.d7.cfg none) 10 exInst exSchema none default).errs.length = 3 := by
  rw [evalSrc_eq_eval_reffree _ _ _ _ _ _ _ exSchema_shaped]; decide +kernel

/-- non-vacuity with a reference: `properties.a` refers to `#/definitions/p` (translated `minimum`
    and `enum` behind the `$ref`, itself translated); the urllib functions are answered by a toy
    environment that is good enough for `#`-references (as in C19) -/
def exSchemaR : Json :=
  .obj [(skey "definitions", .obj [(skey "p", .obj [(skey "minimum", jnat 5), (skey "enum", .arr [jnat 1, jnat 7])])]),
        (skey "properties", .obj [(skey "a", .obj [(skey "$ref", .str (skey "#/definitions/p"))])]),
        (skey "required", .arr [.str (skey "b")])]
def exInstR : Json := .obj [(skey "a", jnat 1)]
def exSplitHash (u : Str) : Str × Str := (u.takeWhile (· ≠ '#'), (u.dropWhile (· ≠ '#')).drop 1)
def exEnv : Env := { (default : Env) with
  urinorm := fun u => some (if (exSplitHash u).2 = [] then (exSplitHash u).1 else u),
  urljoin := fun a b => some (match b with | '#' :: _ => (exSplitHash a).1 ++ b | [] => a | _ => b),
  urldefrag := fun u => some (exSplitHash u),
  scheme := fun _ => some [] }
def exSt : RState :=
  { scopes := [[]], store := [([], exSchemaR)], memo := [], memoCap := none, cacheRemote := false,
    clock := 0, fetchLog := [] }

theorem exSchemaR_shaped : Spec.shapedR .d7 exSchemaR = true := by decide +kernel

/-- non-vacuity, `ref`: the interpreted source of `$ref` on `#/definitions/p` descends into the
    two-member target (the stand-in recursive call reports one error exactly there) and leaves the
    scope stack as it found it; on the value `[]` it raises (TypeError), on `null` with an empty base
    `RefResolutionError` -/
example :
    let o := Fn2.run exEnv (Draft.d7.cfg none)
      (fun _ t => match t with | .obj [_, _] => emit [Err.fresh "x" []] | _ => nothing) src2_ref
      (.str (skey "#/definitions/p")) (jnat 1) (.obj []) none exSt
    o.errs.length = 1 ∧ o.st.scopes = exSt.scopes ∧ o.st.memo.length = 1 := by
  rw [tie2_ref]; decide +kernel
example : (match (Fn2.run exEnv (Draft.d7.cfg none) (fun _ _ => nothing) src2_ref (.arr []) (jnat 1) (.obj []) none exSt).stop with
    | .raised (.crash _) => true | _ => false) = true := by
  rw [tie2_ref]; decide +kernel
example : (match (Fn2.run exEnv (Draft.d7.cfg none) (fun _ _ => nothing) src2_ref .null (jnat 1) (.obj []) none exSt).stop with
    | .raised .refResolution => true | _ => false) = true := by
  rw [tie2_ref]; decide +kernel

/-- the guarded run over the interpreted source is the guarded model run: two errors (`minimum`
    through the reference, `required`) -/
example : (evalSrcG exEnv ⟨fun _ _ => none⟩ .d7 none 10 exInstR exSchemaR none exSt).errs.length = 2 := by
  rw [evalSrcG_eq_evalG _ _ _ _ _ _ _ exSchemaR_shaped]; decide +kernel

/-- and so is the unguarded one (the guard does not fire) -/
example : Py.evalSrc exEnv ⟨fun _ _ => none⟩ (Draft.d7.cfg none) 10 exInstR exSchemaR none exSt
    = eval exEnv ⟨fun _ _ => none⟩ (Draft.d7.cfg none) 10 exInstR exSchemaR none exSt := by
  refine (evalSrc_eq_eval _ _ _ _ _ _ _ exSchemaR_shaped _ _).resolve_left ?_
  intro h
  have hd : (match (Props.C03.evalG exEnv ⟨fun _ _ => none⟩ .d7 none 10 exInstR exSchemaR none exSt).stop with
      | .done => true | _ => false) = true := by decide +kernel
  rw [h] at hd
  cases hd

end JS.Props.Tie
