/-
  Source tie — the model's keyword functions ARE the Python source.

  `harness/translate.py` regenerates, on every run, `JS/Generated/Source.lean` from the working tree's
  `jsonschema/_validators.py` and `_legacy_validators.py` (one `JS.Py.Fn` term per keyword function;
  `JS/Py/IR.lean`), and `JS.Py.Fn.run` (`JS/Py/Interp.lean`) gives those terms Python's meaning. The
  theorems below say, for each of the 30 translated functions, that the interpreted source and the
  hand-written model function (`JS/Keywords.lean`, about which every property theorem is proved) are
  the SAME generator: for every oracle environment, draft class, format checker, recursive call,
  keyword value, instance and enclosing schema. A change to the body of one of these functions that
  changes its behaviour on any input therefore breaks one of these theorems on the next run.

  Hypotheses: where the interpreter (following Python) and the model differ on keyword values that
  the draft's metaschema forbids (a string where an array is required: Python iterates over its
  characters, the model says TypeError), the theorem carries the shape the metaschema demands
  (`Spec.shapeClause`); `…_needs_shape` theorems show the hypothesis is necessary. `schema.isObj`
  holds wherever a keyword function is called (`schemaBody` passes `.obj kvs`).
  Helper lemmas: JS/Proofs/TieBase.lean, TieA.lean, TieB.lean, TieC.lean.

  Not translated (outside the subset of `JS.Py.IR`; tied by the differential correspondence only):
  additionalProperties, additionalItems, multipleOf, format, ref, type, anyOf, oneOf,
  properties_draft3, type_draft3.
-/
import JS.Proofs.TieA
import JS.Proofs.TieB
import JS.Proofs.TieC
namespace JS.Props.Tie
open JS JS.Py JS.Generated.Source

theorem tie_const (env : Env) (d : Draft) (fc : Option FormatChecker) (rec : Rec) (v inst schema : Json) :
    Fn.run env (d.cfg fc) rec src_const v inst schema = kwConst v inst :=
  JS.Tie.tie_const env d fc rec v inst schema

theorem tie_enum (env : Env) (d : Draft) (fc : Option FormatChecker) (rec : Rec) (v inst schema : Json) (hv : v.isArr = true) :
    Fn.run env (d.cfg fc) rec src_enum v inst schema = kwEnum v inst :=
  JS.Tie.tie_enum env d fc rec v inst schema hv

theorem tie_exclusiveMinimum (env : Env) (d : Draft) (fc : Option FormatChecker) (rec : Rec) (v inst schema : Json) :
    Fn.run env (d.cfg fc) rec src_exclusiveMinimum v inst schema = kwExclusiveMinimum (d.cfg fc) v inst :=
  JS.Tie.tie_exclusiveMinimum env d fc rec v inst schema

theorem tie_exclusiveMaximum (env : Env) (d : Draft) (fc : Option FormatChecker) (rec : Rec) (v inst schema : Json) :
    Fn.run env (d.cfg fc) rec src_exclusiveMaximum v inst schema = kwExclusiveMaximum (d.cfg fc) v inst :=
  JS.Tie.tie_exclusiveMaximum env d fc rec v inst schema

theorem tie_minimum (env : Env) (d : Draft) (fc : Option FormatChecker) (rec : Rec) (v inst schema : Json) :
    Fn.run env (d.cfg fc) rec src_minimum v inst schema = kwMinimum (d.cfg fc) v inst :=
  JS.Tie.tie_minimum env d fc rec v inst schema

theorem tie_maximum (env : Env) (d : Draft) (fc : Option FormatChecker) (rec : Rec) (v inst schema : Json) :
    Fn.run env (d.cfg fc) rec src_maximum v inst schema = kwMaximum (d.cfg fc) v inst :=
  JS.Tie.tie_maximum env d fc rec v inst schema

theorem tie_minimum_draft3_draft4 (env : Env) (d : Draft) (fc : Option FormatChecker) (rec : Rec) (v inst schema : Json) (hs : schema.isObj = true) :
    Fn.run env (d.cfg fc) rec src_minimum_draft3_draft4 v inst schema = kwMinimumDraft3Draft4 (d.cfg fc) v inst schema :=
  JS.Tie.tie_minimum_draft3_draft4 env d fc rec v inst schema hs

theorem tie_maximum_draft3_draft4 (env : Env) (d : Draft) (fc : Option FormatChecker) (rec : Rec) (v inst schema : Json) (hs : schema.isObj = true) :
    Fn.run env (d.cfg fc) rec src_maximum_draft3_draft4 v inst schema = kwMaximumDraft3Draft4 (d.cfg fc) v inst schema :=
  JS.Tie.tie_maximum_draft3_draft4 env d fc rec v inst schema hs

theorem tie_minItems (env : Env) (d : Draft) (fc : Option FormatChecker) (rec : Rec) (v inst schema : Json) :
    Fn.run env (d.cfg fc) rec src_minItems v inst schema = kwMinItems (d.cfg fc) v inst :=
  JS.Tie.tie_minItems env d fc rec v inst schema

theorem tie_maxItems (env : Env) (d : Draft) (fc : Option FormatChecker) (rec : Rec) (v inst schema : Json) :
    Fn.run env (d.cfg fc) rec src_maxItems v inst schema = kwMaxItems (d.cfg fc) v inst :=
  JS.Tie.tie_maxItems env d fc rec v inst schema

theorem tie_minLength (env : Env) (d : Draft) (fc : Option FormatChecker) (rec : Rec) (v inst schema : Json) :
    Fn.run env (d.cfg fc) rec src_minLength v inst schema = kwMinLength (d.cfg fc) v inst :=
  JS.Tie.tie_minLength env d fc rec v inst schema

theorem tie_maxLength (env : Env) (d : Draft) (fc : Option FormatChecker) (rec : Rec) (v inst schema : Json) :
    Fn.run env (d.cfg fc) rec src_maxLength v inst schema = kwMaxLength (d.cfg fc) v inst :=
  JS.Tie.tie_maxLength env d fc rec v inst schema

theorem tie_minProperties (env : Env) (d : Draft) (fc : Option FormatChecker) (rec : Rec) (v inst schema : Json) :
    Fn.run env (d.cfg fc) rec src_minProperties v inst schema = kwMinProperties (d.cfg fc) v inst :=
  JS.Tie.tie_minProperties env d fc rec v inst schema

theorem tie_maxProperties (env : Env) (d : Draft) (fc : Option FormatChecker) (rec : Rec) (v inst schema : Json) :
    Fn.run env (d.cfg fc) rec src_maxProperties v inst schema = kwMaxProperties (d.cfg fc) v inst :=
  JS.Tie.tie_maxProperties env d fc rec v inst schema

theorem tie_uniqueItems (env : Env) (d : Draft) (fc : Option FormatChecker) (rec : Rec) (v inst schema : Json) :
    Fn.run env (d.cfg fc) rec src_uniqueItems v inst schema = kwUniqueItems (d.cfg fc) v inst :=
  JS.Tie.tie_uniqueItems env d fc rec v inst schema

theorem tie_pattern (env : Env) (d : Draft) (fc : Option FormatChecker) (rec : Rec) (v inst schema : Json) :
    Fn.run env (d.cfg fc) rec src_pattern v inst schema = kwPattern env (d.cfg fc) v inst :=
  JS.Tie.tie_pattern env d fc rec v inst schema

theorem tie_required (env : Env) (d : Draft) (fc : Option FormatChecker) (rec : Rec) (v inst schema : Json) (hs : v.isStr = false) (ho : v.isObj = false) :
    Fn.run env (d.cfg fc) rec src_required v inst schema = kwRequired (d.cfg fc) v inst :=
  JS.Tie.tie_required env d fc rec v inst schema hs ho

theorem tie_properties (env : Env) (d : Draft) (fc : Option FormatChecker) (rec : Rec) (v inst schema : Json) :
    Fn.run env (d.cfg fc) rec src_properties v inst schema = kwProperties (d.cfg fc) rec v inst :=
  JS.Tie.tie_properties env d fc rec v inst schema

theorem tie_patternProperties (env : Env) (d : Draft) (fc : Option FormatChecker) (rec : Rec) (v inst schema : Json) :
    Fn.run env (d.cfg fc) rec src_patternProperties v inst schema = kwPatternProperties env (d.cfg fc) rec v inst :=
  JS.Tie.tie_patternProperties env d fc rec v inst schema

theorem tie_propertyNames (env : Env) (d : Draft) (fc : Option FormatChecker) (rec : Rec) (v inst schema : Json) :
    Fn.run env (d.cfg fc) rec src_propertyNames v inst schema = kwPropertyNames (d.cfg fc) rec v inst :=
  JS.Tie.tie_propertyNames env d fc rec v inst schema

theorem tie_dependencies (env : Env) (d : Draft) (fc : Option FormatChecker) (rec : Rec) (v inst schema : Json) :
    Fn.run env (d.cfg fc) rec src_dependencies v inst schema = kwDependencies (d.cfg fc) rec v inst :=
  JS.Tie.tie_dependencies env d fc rec v inst schema

theorem tie_dependencies_draft3 (env : Env) (d : Draft) (fc : Option FormatChecker) (rec : Rec) (v inst schema : Json) :
    Fn.run env (d.cfg fc) rec src_dependencies_draft3 v inst schema = kwDependenciesDraft3 (d.cfg fc) rec v inst :=
  JS.Tie.tie_dependencies_draft3 env d fc rec v inst schema

theorem tie_allOf (env : Env) (d : Draft) (fc : Option FormatChecker) (rec : Rec) (v inst schema : Json) (hs : v.isStr = false) (ho : v.isObj = false) :
    Fn.run env (d.cfg fc) rec src_allOf v inst schema = kwAllOf rec v inst :=
  JS.Tie.tie_allOf env d fc rec v inst schema hs ho

theorem tie_items (env : Env) (d : Draft) (fc : Option FormatChecker) (rec : Rec) (v inst schema : Json) :
    Fn.run env (d.cfg fc) rec src_items v inst schema = kwItems (d.cfg fc) rec v inst :=
  JS.Tie.tie_items env d fc rec v inst schema

theorem tie_items_draft3_draft4 (env : Env) (d : Draft) (fc : Option FormatChecker) (rec : Rec) (v inst schema : Json) (hv : v.isStr = false) :
    Fn.run env (d.cfg fc) rec src_items_draft3_draft4 v inst schema = kwItemsDraft3Draft4 (d.cfg fc) rec v inst :=
  JS.Tie.tie_items_draft3_draft4 env d fc rec v inst schema hv

theorem tie_contains (env : Env) (d : Draft) (fc : Option FormatChecker) (rec : Rec) (v inst schema : Json) :
    Fn.run env (d.cfg fc) rec src_contains v inst schema = kwContains (d.cfg fc) rec v inst :=
  JS.Tie.tie_contains env d fc rec v inst schema

theorem tie_not_ (env : Env) (d : Draft) (fc : Option FormatChecker) (rec : Rec) (v inst schema : Json) :
    Fn.run env (d.cfg fc) rec src_not_ v inst schema = kwNot rec v inst :=
  JS.Tie.tie_not_ env d fc rec v inst schema

theorem tie_if_ (env : Env) (d : Draft) (fc : Option FormatChecker) (rec : Rec) (v inst schema : Json) (hs : schema.isObj = true) :
    Fn.run env (d.cfg fc) rec src_if_ v inst schema = kwIf rec v inst schema :=
  JS.Tie.tie_if_ env d fc rec v inst schema hs

theorem tie_disallow_draft3 (env : Env) (d : Draft) (fc : Option FormatChecker) (rec : Rec) (v inst schema : Json) :
    Fn.run env (d.cfg fc) rec src_disallow_draft3 v inst schema = kwDisallowDraft3 rec v inst :=
  JS.Tie.tie_disallow_draft3 env d fc rec v inst schema

theorem tie_extends_draft3 (env : Env) (d : Draft) (fc : Option FormatChecker) (rec : Rec) (v inst schema : Json) (hv : v.isStr = false) :
    Fn.run env (d.cfg fc) rec src_extends_draft3 v inst schema = kwExtendsDraft3 (d.cfg fc) rec v inst :=
  JS.Tie.tie_extends_draft3 env d fc rec v inst schema hv

/-- the shape hypotheses are necessary: on keyword values the metaschemas forbid, the Python source
    (iterating over a string's characters, over a dict's keys) and the model (TypeError) differ -/
theorem tie_enum_needs_shape :
    ¬ ∀ (env : Env) (d : Draft) (fc : Option FormatChecker) (rec : Rec) (v inst schema : Json),
      Fn.run env (d.cfg fc) rec src_enum v inst schema = kwEnum v inst := JS.Tie.tie_enum_needs_shape
theorem tie_required_needs_shape :
    ¬ ∀ (env : Env) (d : Draft) (fc : Option FormatChecker) (rec : Rec) (v inst schema : Json),
      Fn.run env (d.cfg fc) rec src_required v inst schema = kwRequired (d.cfg fc) v inst := JS.Tie.tie_required_needs_shape
theorem tie_if_needs_shape :
    ¬ ∀ (env : Env) (d : Draft) (fc : Option FormatChecker) (rec : Rec) (v inst schema : Json),
      Fn.run env (d.cfg fc) rec src_if_ v inst schema = kwIf rec v inst schema := JS.Tie.tie_if__needs_shape

/-- non-vacuity: the interpreted source of `minItems` on a concrete instance yields one error, as the
    model does -/
example : (Fn.run default (Draft.d7.cfg none) (fun _ _ => nothing) src_minItems (jnat 2) (.arr [.null]) (.obj []) none default).errs.length = 1 := by
  rw [tie_minItems]; decide +kernel

end JS.Props.Tie
