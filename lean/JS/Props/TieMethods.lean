/-
  Source tie, validator methods — one layer of the model's evaluator IS the method `iter_errors`, and
  `descendG` IS the method `descend`, of the class `validators.create` builds.

  `harness/translate_methods.py` regenerates `JS/Generated/MethodSource.lean` from the working tree's
  `jsonschema/validators.py` on every run: one `JS.Py.Method` term (`JS/Py/IR3.lean`) for each of the two
  generator methods written inside `create()`. `JS.Py.Method.run` (`JS/Py/Interp3.lean`) gives the terms
  Python's meaning: `self` is the validator (its class is `cfg`, `self.schema` is `root`, `self.resolver`
  is the resolver state threaded through the generator, `self.iter_errors` is `rec`, a function found in
  `self.VALIDATORS` is called through `applyKw` — JS/Props/Tie.lean ties those functions to their own
  source).

  What is tied, for EVERY class `cfg` (no fact about a particular draft is used), every recursive callee
  `rec`, every instance, every budget and resolver state (the equations are between generators):

  * `iter_errors(instance, _schema)` = `evalStep … instance _schema` for every `_schema` except `None`:
    the `True`/`False` schemas (`falseErr`); `id_of` raising on non-container schemas (`TypeError` for
    numbers, `AttributeError` for strings and lists: the last two clauses of `evalStep`); `scope =
    id_of(_schema)`, `if scope: push_scope(scope)` against `scopeOf`/`withScopeOpt` (non-empty string:
    pushed; empty string, falsy non-string, `$ref` present: nothing pushed; truthy non-string:
    `TypeError` from `push_scope`; `urljoin` unanswered: the same oracle miss); the `finally` pops
    exactly when something was pushed; `ref = _schema.get("$ref")` not `None`: only that member,
    otherwise every member in order (`schemaBody`, `seqG (runKeyword …)`); a key without a keyword
    function: `continue`; the body of `for error in errors:` is `stamp` (`_set`, then `schema_path
    .appendleft(k)` unless `k` is `if` or `$ref`).
  * `_schema=None` means `self.schema` (`tie_iter_errors_null`, `tie_iter_errors_default`); the MODEL has
    no such case: `evalStep … instance null` raises `AttributeError`, so the hypothesis `schema ≠ null`
    of `tie_iter_errors` cannot be dropped (`tie_iter_errors_needs_nonnull`). A `null` in the place of a
    subschema is outside the model's domain (no metaschema accepts it; `Spec.shapedR` never holds of it).
  * `descend(instance, schema, path, schema_path)` = `descendG (rec instance schema) …` for the values
    the keyword functions pass as `path=`/`schema_path=`: `None`, a string, a non-negative integer
    (`PathArg`); other values are not modelled by the interpreter (`tie_descend_needs_patharg`).
  * whole evaluations: `evalMeth` (`JS/Py/EvalSrc.lean`: every layer is the interpreted `iter_errors`)
    unfolds to `evalStep` layer by layer (`evalMeth_succ`), and the guarded evaluator over the
    interpreted method is the guarded model evaluator of C03 on shaped schemas (`evalMethG_eq_evalG`).

  Helper lemmas: JS/Proofs/TieMethods.lean.
-/
import JS.Proofs.TieMethods
import JS.Drafts
namespace JS.Props.Tie
open JS JS.Py JS.Generated.MethodSource

/-- **`iter_errors`.** The interpreted source of the method is one layer of the model's evaluator. -/
theorem tie_iter_errors (env : Env) (impl : FmtImpl) (cfg : Cfg) (rec : Rec) (root inst schema : Json)
    (hs : schema ≠ .null) :
    Method.run env impl cfg rec root src_iter_errors [inst, schema] = evalStep env impl cfg rec inst schema :=
  JS.Tie.tie_iter_errors env impl cfg rec root inst schema hs

/-- `_schema=None`: the call is the call on `self.schema` (literally: the shadowed parameter stays in the
    store of locals and is never looked up again) -/
theorem tie_iter_errors_null (env : Env) (impl : FmtImpl) (cfg : Cfg) (rec : Rec) (root inst : Json) :
    Method.run env impl cfg rec root src_iter_errors [inst, .null]
      = Method.run env impl cfg rec root src_iter_errors [inst, root] :=
  JS.Tie.tie_iter_errors_null env impl cfg rec root inst

/-- … hence one layer of the model on `self.schema` -/
theorem tie_iter_errors_default (env : Env) (impl : FmtImpl) (cfg : Cfg) (rec : Rec) (root inst : Json)
    (hr : root ≠ .null) :
    Method.run env impl cfg rec root src_iter_errors [inst, .null] = evalStep env impl cfg rec inst root :=
  JS.Tie.tie_iter_errors_default env impl cfg rec root inst hr

/-- … unless `self.schema` is `None` as well: `id_of(None)` raises `TypeError` -/
theorem tie_iter_errors_null_root (env : Env) (impl : FmtImpl) (cfg : Cfg) (rec : Rec) (inst : Json) :
    Method.run env impl cfg rec .null src_iter_errors [inst, .null] = crashG "TypeError" :=
  JS.Tie.tie_iter_errors_null_root env impl cfg rec inst

/-- the hypothesis `schema ≠ null` is needed: the model has no `None`-means-`self.schema` case (for the
    validator of the schema `true`, `iter_errors(instance, None)` yields nothing; `evalStep` raises) -/
theorem tie_iter_errors_needs_nonnull :
    ¬ ∀ (env : Env) (impl : FmtImpl) (cfg : Cfg) (rec : Rec) (root inst schema : Json),
      Method.run env impl cfg rec root src_iter_errors [inst, schema] = evalStep env impl cfg rec inst schema := by
  intro h
  have h' := h default ⟨fun _ _ => none⟩ (Draft.d7.cfg none) (fun _ _ => nothing) (.bool true) .null .null
  rw [tie_iter_errors_default _ _ _ _ _ _ (by decide)] at h'
  have h'' := congrArg (fun g => match (g none default).stop with | .done => true | _ => false) h'
  revert h''
  decide +kernel

/-- what a keyword function passes as `path=` / `schema_path=`: `None`, a string, a non-negative integer -/
def PathArg (j : Json) : Prop :=
  j = .null ∨ (∃ s : Str, j = .str s) ∨ ∃ n : Nat, j = .num (.int n)

/-- … and the path element it stands for (`None`: nothing is prepended) -/
def pathArg : Json → Option PathElem
  | .str s => some (.key s)
  | .num (.int i) => if 0 ≤ i then some (.idx i.toNat) else none
  | _ => none

theorem PathArg.rep {j : Json} (h : PathArg j) : JS.Tie.PathRep j (pathArg j) := by
  rcases h with rfl | ⟨s, rfl⟩ | ⟨n, rfl⟩
  · exact .null
  · exact .key s
  · have : pathArg (.num (.int n)) = some (.idx n) := by simp [pathArg]
    rw [this]; exact .idx n

/-- **`descend`.** The interpreted source of the method is the model's `descendG` around the recursive call. -/
theorem tie_descend (env : Env) (impl : FmtImpl) (cfg : Cfg) (rec : Rec) (root i s p sp : Json)
    (hp : PathArg p) (hsp : PathArg sp) :
    Method.run env impl cfg rec root src_descend [i, s, p, sp] = descendG (rec i s) (pathArg p) (pathArg sp) :=
  JS.Tie.tie_descend_rep env impl cfg rec root i s p sp _ _ hp.rep hsp.rep

/-- the hypothesis is needed: `path=True` is answered `Unmodelled` by the interpreter
    (Python would prepend `True`; no keyword function does that) -/
theorem tie_descend_needs_patharg :
    ¬ ∀ (env : Env) (impl : FmtImpl) (cfg : Cfg) (rec : Rec) (root i s p sp : Json),
      Method.run env impl cfg rec root src_descend [i, s, p, sp] = descendG (rec i s) (pathArg p) (pathArg sp) := by
  intro h
  have h' := congrArg (fun g => match (g none default).stop with | .done => true | _ => false)
    (h default ⟨fun _ _ => none⟩ (Draft.d7.cfg none) (fun _ _ => nothing) (.bool true) .null (.bool true)
      (.bool true) .null)
  revert h'
  decide +kernel

/-! ### whole evaluations -/

/-- the evaluator whose every layer is the interpreted `iter_errors` unfolds to the model's layer … -/
theorem evalMeth_succ (env : Env) (impl : FmtImpl) (cfg : Cfg) (root : Json) (n : Nat) (inst schema : Json)
    (hs : schema ≠ .null) :
    evalMeth env impl cfg root (n + 1) inst schema
      = evalStep env impl cfg (evalMeth env impl cfg root n) inst schema :=
  JS.Tie.evalMeth_succ env impl cfg root n inst schema hs

/-- … and on `None` to the model's layer on the validator's own schema -/
theorem evalMeth_succ_null (env : Env) (impl : FmtImpl) (cfg : Cfg) (root : Json) (n : Nat) (inst : Json)
    (hr : root ≠ .null) :
    evalMeth env impl cfg root (n + 1) inst .null
      = evalStep env impl cfg (evalMeth env impl cfg root n) inst root :=
  JS.Tie.evalMeth_succ_null env impl cfg root n inst hr

/-- the guarded evaluator (C03: the shape of a schema is checked before every recursive evaluation)
    whose every layer is the interpreted `iter_errors` -/
def evalMethG (env : Env) (impl : FmtImpl) (d : Draft) (fc : Option FormatChecker) (root : Json) : Nat → Rec
  | 0 => fun _ _ => stopG .fuel
  | n + 1 => fun inst schema =>
      Method.run env impl (d.cfg fc) (Props.C03.guardRec d (evalMethG env impl d fc root n)) root
        src_iter_errors [inst, schema]

/-- **Composition (guarded evaluators).** On every shaped schema (references allowed), for every fuel,
    instance and `self.schema`, the guarded evaluator over the interpreted method IS the guarded model
    evaluator (as generators: every budget, every resolver state). -/
theorem evalMethG_eq_evalG (env : Env) (impl : FmtImpl) (d : Draft) (fc : Option FormatChecker) (root : Json)
    (n : Nat) :
    ∀ (i s : Json), Spec.shapedR d s = true →
      evalMethG env impl d fc root n i s = Props.C03.evalG env impl d fc n i s := by
  induction n with
  | zero => intro i s _; rfl
  | succ n ih =>
    intro i s hs
    show Method.run env impl (d.cfg fc) (Props.C03.guardRec d (evalMethG env impl d fc root n)) root
        src_iter_errors [i, s]
      = evalStep env impl (d.cfg fc) (Props.C03.guardRec d (Props.C03.evalG env impl d fc n)) i s
    rw [JS.Tie.guardRec_congr_shaped d _ _ ih]
    exact tie_iter_errors env impl (d.cfg fc) _ root i s (JS.Tie.shapedR_ne_null d s hs)

/-! ### non-vacuity -/

namespace MethodsEx

/-- a Draft 7 schema with an id (a scope is pushed and popped), a member without a keyword function,
    and three keywords of which two fail -/
def schema : Json :=
  .obj [(skey "$id", .str (skey "http://x/root")),
        (skey "title", .str (skey "t")),
        (skey "type", .str (skey "object")),
        (skey "properties", .obj [(skey "a", .obj [(skey "minItems", jnat 2)])]),
        (skey "required", .arr [.str (skey "a"), .str (skey "b")])]
def inst : Json := .obj [(skey "a", .arr [jnat 3])]
/-- a schema with `$ref` next to other members: only the reference runs, the id is ignored -/
def schemaRef : Json :=
  .obj [(skey "$id", jnat 5), (skey "required", .arr [.str (skey "b")]), (skey "$ref", .str (skey "#/x"))]
def env : Env := { (default : Env) with urljoin := fun _ b => some b }
def st : RState :=
  { scopes := [[]], store := [], memo := [], memoCap := none, cacheRemote := false, clock := 0, fetchLog := [] }
def impl : FmtImpl := ⟨fun _ _ => none⟩
def cfg : Cfg := Draft.d7.cfg none

end MethodsEx
open MethodsEx in
/-- the interpreted method over the model's evaluator as callee: two errors (`minItems` below
    `properties`, `required`), stamped with their keywords, the scope stack as it was found -/
example :
    let o := Method.run env impl cfg (eval env impl cfg 5) (.bool true) src_iter_errors [inst, schema] none st
    o.errs.length = 2 ∧ o.errs.map (fun e => e.info.map (·.kw)) = [some (some (skey "minItems")), some (some (skey "required"))]
      ∧ o.errs.map (·.schemaPath.length) = [3, 1] ∧ o.st.scopes = st.scopes := by
  rw [tie_iter_errors _ _ _ _ _ _ _ (by decide)]; decide +kernel

open MethodsEx in
/-- closed after the first error (`is_valid`): one error, and the `finally` still pops -/
example :
    let o := Method.run env impl cfg (eval env impl cfg 5) (.bool true) src_iter_errors [inst, schema] (some 1) st
    o.errs.length = 1 ∧ o.st.scopes = st.scopes := by
  rw [tie_iter_errors _ _ _ _ _ _ _ (by decide)]; decide +kernel

open MethodsEx in
/-- `$ref` present: the truthy non-string id is not looked at (no `TypeError`), `required` does not run
    (no error), only the function of `$ref` runs: it gets as far as asking the environment to split the
    reference (the toy environment has no answer: an oracle miss, not a crash) -/
example :
    let o := Method.run env impl cfg (fun _ _ => nothing) (.bool true) src_iter_errors [inst, schemaRef] none st
    o.errs.length = 0 ∧ (match o.stop with | .miss (.urldefrag _) => true | _ => false) = true := by
  rw [tie_iter_errors _ _ _ _ _ _ _ (by decide)]; decide +kernel

open MethodsEx in
/-- `_schema=None` on the validator of `schema`: the same two errors -/
example :
    (Method.run env impl cfg (eval env impl cfg 5) schema src_iter_errors [inst, .null] none st).errs.length = 2 := by
  rw [tie_iter_errors_default _ _ _ _ _ _ (by decide)]; decide +kernel

open MethodsEx in
/-- `descend(instance, schema, path=0, schema_path="items")` prepends both -/
example :
    ((Method.run env impl cfg (eval env impl cfg 5) (.bool true) src_descend
        [inst, schema, jnat 0, .str (skey "items")] none st).errs.map
      fun e => (e.path.head?, e.schemaPath.head?))
      = [(some (.idx 0), some (.key (skey "items"))), (some (.idx 0), some (.key (skey "items")))] := by
  rw [tie_descend env impl cfg _ _ inst schema (jnat 0) (.str (skey "items")) (.inr (.inr ⟨0, rfl⟩))
    (.inr (.inl ⟨_, rfl⟩))]
  decide +kernel

#print axioms tie_iter_errors
#print axioms tie_iter_errors_null
#print axioms tie_iter_errors_default
#print axioms tie_iter_errors_null_root
#print axioms tie_iter_errors_needs_nonnull
#print axioms tie_descend
#print axioms tie_descend_needs_patharg
#print axioms evalMeth_succ
#print axioms evalMeth_succ_null
#print axioms evalMethG_eq_evalG

end JS.Props.Tie
