/-
  Source tie, type predicates — the `TyFn`s of the model ARE the predicates of `jsonschema/_types.py`.

  `harness/translate_types.py` regenerates `JS/Generated/TypeSource.lean` from the working tree's
  `_types.py` on every run (one `JS.Py.PFn` term per predicate, and one for the lambda that Draft 6
  redefines `integer` with); `JS.Py.PFn.run` (`JS/Py/Pred.lean`) gives the terms Python's meaning
  (`isinstance` with `bool ⊂ int ⊂ Number`, `float ⊂ Number`; `is None`; `float.is_integer`). Each is
  proved equal, on every JSON value, to the `TyFn` that the regenerated type tables
  (`JS/Generated/Tables.lean`, by `module.qualname`; the lambda by probing) bind the type name to.
  Helper lemmas: JS/Proofs/TieTypes.lean.
-/
import JS.Proofs.TieTypes
import JS.Drafts
namespace JS.Props.Tie
open JS JS.Py JS.Generated.TypeSource

/-- the regenerated source of the predicate a `TyFn` stands for -/
def srcOfTy : TyFn → Option PFn
  | .isArray => some src_is_array
  | .isBool => some src_is_bool
  | .isInteger => some src_is_integer
  | .isNull => some src_is_null
  | .isNumber => some src_is_number
  | .isObject => some src_is_object
  | .isString => some src_is_string
  | .isAny => some src_is_any
  | .isIntegerOrIntFloat => some src_draft6_type_checker_integer
  | _ => none

/-- **the interpreted source of a predicate is the model's predicate**, on every JSON value -/
theorem tyfn_is_source (f : TyFn) (p : PFn) (h : srcOfTy f = some p) (j : Json) :
    JS.Tie.runPred p j = .ok (f.apply j) := by
  cases f <;> simp only [srcOfTy, Option.some.injEq, reduceCtorEq] at h <;> subst h
  · exact JS.Tie.pred_is_array j
  · exact JS.Tie.pred_is_bool j
  · exact JS.Tie.pred_is_integer j
  · exact JS.Tie.pred_is_null j
  · exact JS.Tie.pred_is_number j
  · exact JS.Tie.pred_is_object j
  · exact JS.Tie.pred_is_string j
  · exact JS.Tie.pred_is_any j
  · exact JS.Tie.pred_draft6_integer j

/-- every predicate in the four REGENERATED type tables has a translated source … -/
theorem draft_types_have_source (d : Draft) : d.types.all (fun nf => (srcOfTy nf.2).isSome) = true := by
  cases d <;> decide +kernel

/-- … hence `validator.is_type(instance, name)` of a draft class is the interpreted source of the
    predicate its table binds `name` to -/
theorem isType_is_source (d : Draft) (fc : Option FormatChecker) (name : Str) (f : TyFn)
    (h : lookupS name (d.cfg fc).types = some f) (j : Json) :
    ∃ p, srcOfTy f = some p ∧ (JS.Tie.runPred p j).toOption = (match isType (d.cfg fc) j (.str name) with | .ok b => some b | _ => none) := by
  have hall := draft_types_have_source d
  have hmem : ∃ nf ∈ d.types, nf.2 = f := by
    have : ∀ (l : List (Str × TyFn)), lookupS name l = some f → ∃ nf ∈ l, nf.2 = f := by
      intro l
      induction l with
      | nil => intro h; simp [lookupS] at h
      | cons x xs ih =>
        intro h
        unfold lookupS at h
        split at h
        · exact ⟨x, List.mem_cons_self .., by simpa using h⟩
        · obtain ⟨nf, hm, he⟩ := ih h
          exact ⟨nf, List.mem_cons_of_mem _ hm, he⟩
    exact this _ h
  obtain ⟨nf, hm, he⟩ := hmem
  have hs := (List.all_eq_true.1 hall) nf hm
  rw [he] at hs
  obtain ⟨p, hp⟩ := Option.isSome_iff_exists.1 hs
  refine ⟨p, hp, ?_⟩
  rw [tyfn_is_source f p hp j]
  simp [isType, h, Except.toOption]

/-- non-vacuity: Draft 7's `integer` on `3.0` and on `true` -/
example : (JS.Tie.runPred src_draft6_type_checker_integer (.num (.flt false 3 0))).toOption = some true := by decide +kernel
example : (JS.Tie.runPred src_draft6_type_checker_integer (.bool true)).toOption = some false := by decide +kernel

end JS.Props.Tie
