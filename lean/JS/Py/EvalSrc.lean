/-
  JS.Py.EvalSrc — the evaluator in which every keyword function that `harness/translate.py` could
  translate is the INTERPRETED SOURCE (`Fn.run` of the regenerated term) instead of the hand-written
  model function.  `JS/Props/Tie.lean` proves the two evaluators equal on shaped schemas; the driver
  also runs both on every VAL case and reports any difference (`srcDiff`).
-/
import JS.Py.Interp2
import JS.Py.Interp3
import JS.Generated.Source
import JS.Generated.MethodSource
namespace JS.Py
open JS.Generated.Source

/-- the regenerated source of the function a `KwFn` names (by `module.qualname`, as in the
    regenerated keyword tables) -/
def srcOf : KwFn → Option Fn
  | .ref => some src_ref
  | .additionalItems => some src_additionalItems
  | .additionalProperties => some src_additionalProperties
  | .const => some src_const
  | .contains => some src_contains
  | .exclusiveMinimum => some src_exclusiveMinimum
  | .exclusiveMaximum => some src_exclusiveMaximum
  | .minimum => some src_minimum
  | .maximum => some src_maximum
  | .multipleOf => some src_multipleOf
  | .minItems => some src_minItems
  | .maxItems => some src_maxItems
  | .uniqueItems => some src_uniqueItems
  | .pattern => some src_pattern
  | .format => some src_format
  | .minLength => some src_minLength
  | .maxLength => some src_maxLength
  | .dependencies => some src_dependencies
  | .enum => some src_enum
  | .type => some src_type
  | .properties => some src_properties
  | .required => some src_required
  | .minProperties => some src_minProperties
  | .maxProperties => some src_maxProperties
  | .allOf => some src_allOf
  | .anyOf => some src_anyOf
  | .oneOf => some src_oneOf
  | .not_ => some src_not_
  | .if_ => some src_if_
  | .items => some src_items
  | .patternProperties => some src_patternProperties
  | .propertyNames => some src_propertyNames
  | .dependencies_draft3 => some src_dependencies_draft3
  | .disallow_draft3 => some src_disallow_draft3
  | .extends_draft3 => some src_extends_draft3
  | .items_draft3_draft4 => some src_items_draft3_draft4
  | .minimum_draft3_draft4 => some src_minimum_draft3_draft4
  | .maximum_draft3_draft4 => some src_maximum_draft3_draft4
  | .properties_draft3 => some src_properties_draft3
  | .type_draft3 => some src_type_draft3
  | .alwaysFail _ => none
  | .never => none
  | .foreign _ => none

/-- the regenerated source in the richer subset (`JS.Py.IR2`), for the functions that need it -/
def src2Of : KwFn → Option Fn2
  | .anyOf => some src2_anyOf
  | .oneOf => some src2_oneOf
  | .properties_draft3 => some src2_properties_draft3
  | .type_draft3 => some src2_type_draft3
  | .additionalProperties => some src2_additionalProperties
  | .multipleOf => some src2_multipleOf
  | .format => some src2_format
  | .ref => some src2_ref
  | _ => none

/-- interpreted source where there is one (first or second subset), the hand-written function otherwise -/
def applyKwSrc (env : Env) (impl : FmtImpl) (cfg : Cfg) (rec : Rec) (f : KwFn) (v inst schema : Json) : Gen :=
  match srcOf f with
  | some (.body b) => Fn.run env cfg rec (.body b) v inst schema
  | _ =>
    match src2Of f with
    | some (.body b) => Fn2.run env cfg rec (.body b) v inst schema
    | _ => applyKw env impl cfg rec f v inst schema

def runKeywordSrc (env : Env) (impl : FmtImpl) (cfg : Cfg) (rec : Rec) (inst schema : Json) (kv : Str × Json) : Gen :=
  match lookupS kv.1 cfg.keywords with
  | none => nothing
  | some f => mapErrs (stamp kv.1 kv.2 inst schema) (applyKwSrc env impl cfg rec f kv.2 inst schema)

def schemaBodySrc (env : Env) (impl : FmtImpl) (cfg : Cfg) (rec : Rec) (inst : Json) (kvs : List (Str × Json)) : Gen :=
  match Json.lookup (skey "$ref") kvs with
  | some .null => seqG (runKeywordSrc env impl cfg rec inst (.obj kvs)) kvs
  | some ref => runKeywordSrc env impl cfg rec inst (.obj kvs) (skey "$ref", ref)
  | none => seqG (runKeywordSrc env impl cfg rec inst (.obj kvs)) kvs

def evalStepSrc (env : Env) (impl : FmtImpl) (cfg : Cfg) (rec : Rec) : Rec := fun inst schema =>
  match schema with
  | .bool true => nothing
  | .bool false => emit [falseErr inst]
  | .obj kvs =>
    match scopeOf cfg kvs with
    | .ok scope => withScopeOpt env scope (schemaBodySrc env impl cfg rec inst kvs)
    | .error cls => crashG cls
  | .num _ => crashG "TypeError"
  | _ => crashG "AttributeError"

def evalSrc (env : Env) (impl : FmtImpl) (cfg : Cfg) : Nat → Rec
  | 0 => fun _ _ => stopG .fuel
  | n + 1 => evalStepSrc env impl cfg (evalSrc env impl cfg n)

/-- the evaluator whose every layer is the INTERPRETED SOURCE of the method `iter_errors`
    (`JS.Generated.MethodSource.src_iter_errors`); `root` is `self.schema` -/
def evalMeth (env : Env) (impl : FmtImpl) (cfg : Cfg) (root : Json) : Nat → Rec
  | 0 => fun _ _ => stopG .fuel
  | n + 1 => fun inst schema =>
      Method.run env impl cfg (evalMeth env impl cfg root n) root JS.Generated.MethodSource.src_iter_errors [inst, schema]

/-- names of the translated functions (for the evidence) -/
def translated : List String :=
  table.filterMap fun p => match p.2 with | .body _ => some p.1 | .unsupported _ => none
-- (the functions of the second subset are `src2_*`: anyOf, oneOf, properties_draft3, type_draft3, ref)

end JS.Py
