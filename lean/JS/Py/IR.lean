/-
  JS.Py.IR — abstract syntax of the subset of Python in which most keyword functions of
  `_validators.py` / `_legacy_validators.py` are written.

  `harness/translate.py` parses the working tree's source with Python's `ast` module and emits one
  `Fn` term per keyword function into `JS/Generated/Source.lean` ON EVERY RUN; `JS.Py.Interp` gives
  these terms their meaning (a generator in the sense of `JS.Gen`), and `JS/Props/Tie.lean` proves, for
  every translated function, that this meaning IS the hand-written model's keyword function.  The
  translator is a plain serialiser: every semantic decision (what `<`, `in`, `len`, `for … in`,
  `yield`, `return` mean) is taken here, in Lean, where the theorems can see it.

  Names: the four parameters of a keyword function are renamed by the translator to
  `validator`, `value`, `instance`, `schema` (positional); every other name is a local variable.
-/
import JS.Eval
namespace JS.Py

inductive CmpOp where
  | lt | le | gt | ge | eq | ne
deriving Repr, DecidableEq, Inhabited

/-- expressions without side effects (they may raise) -/
inductive Ex where
  | var (n : String)
  | str (s : String)                       -- string constant
  | int (n : Int)                          -- integer constant
  | bool (b : Bool)
  | none_
  | emptyDict | emptyList                  -- `{}`  `[]`
  | list1 (x : Ex)                         -- `[x]`
  | dict1 (k : String) (v : Ex)            -- `{"k": v}`
  | isType (x ty : Ex)                     -- `validator.is_type(x, ty)`
  | len (x : Ex)
  | cmp (op : CmpOp) (a b : Ex)
  | contains (neg : Bool) (x c : Ex)       -- `x in c` / `x not in c`
  | not_ (a : Ex)
  | and_ (a b : Ex)
  | or_ (a b : Ex)
  | index (a k : Ex)                       -- `a[k]`
  | get (a k d : Ex)                       -- `a.get(k, d)`
  | equal (a b : Ex)                       -- `_utils.equal(a, b)`
  | uniq (a : Ex)                          -- `_utils.uniq(a)`
  | reSearch (p s : Ex)                    -- `re.search(p, s)` (as a truth value)
  | ensureList (a : Ex)                    -- `_utils.ensure_list(a)`
  | sliceFrom (a n : Ex)                   -- `a[n:]`
  | all_ (x : String) (it : Ex) (body : Ex)   -- `all(body for x in it)`
  | any_ (x : String) (it : Ex) (body : Ex)   -- `any(body for x in it)`
deriving Repr, Inhabited

/-- conditions of `if`: an expression's truth value, or something that runs the validator -/
inductive Cond where
  | ex (e : Ex)
  | isValid (inst schema : Ex)                          -- `validator.is_valid(inst, schema)`
  | anyValid (x : String) (it : Ex) (inst schema : Ex)  -- `any(validator.is_valid(inst, schema) for x in it)`
  | notC (c : Cond)
deriving Repr, Inhabited

/-- what a `for` iterates over -/
inductive Iter where
  | elems (x : Ex)                 -- `for a in x`
  | items (x : Ex)                 -- `for a, b in x.items()`  (also `iteritems(x)`)
  | enumerate (x : Ex)             -- `for a, b in enumerate(x)`
  | zipEnum (x y : Ex)             -- `for (a, b), c in zip(enumerate(x), y)`
  | enumerateFrom (x start : Ex)   -- `for a, b in enumerate(x, start=start)`
deriving Repr, Inhabited

/-- loop targets -/
inductive Pat where
  | one (a : String)
  | two (a b : String)
  | three (a b c : String)         -- `(a, b), c`
deriving Repr, Inhabited

inductive St where
  | ret                                                   -- `return`
  | cont                                                  -- `continue`
  | assign (x : String) (e : Ex)
  | ifS (c : Cond) (t e : List St)
  | forS (p : Pat) (it : Iter) (body : List St)
  | descend (inst schema : Ex) (path schemaPath : Option Ex)
      -- `for error in validator.descend(inst, schema, path=…, schema_path=…): yield error`
  | yieldErr (fmt : String) (args : List Ex)              -- `yield ValidationError(fmt % (args…))`
  | yieldMsg (helper : String) (fmt : String) (args : List Ex)
      -- a message built by a helper of `_utils`: `yield ValidationError(fmt % extras_msg(x))` (helper
      -- "extras_msg", one argument) or `yield ValidationError(types_msg(instance, types))` (helper
      -- "types_msg", no format)
deriving Repr, Inhabited

/-- a translated keyword function; `unsupported` records why the translator gave up -/
inductive Fn where
  | body (b : List St)
  | unsupported (why : String)
deriving Repr, Inhabited

end JS.Py
