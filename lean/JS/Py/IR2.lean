/-
  JS.Py.IR2 — the richer subset of Python used by the keyword functions that keep LISTS OF ERRORS,
  ITERATORS or ERROR OBJECTS in local variables (`anyOf`, `oneOf`, `type_draft3`, `properties_draft3`):
  `x = list(validator.descend(…))`, `x.extend(y)`, `if not errs: break`, `for … else`, `context=x`,
  `subschemas = enumerate(…)` consumed by two loops, a list comprehension filtered by `is_valid`,
  `error = ValidationError(…)`, `error._set(…)`, `error.path.appendleft(…)`,
  `error.schema_path.extend([…])`, `yield error`.

  It embeds the expression language of `JS.Py.IR` (`Ex`, over the JSON-valued locals) and has its own
  statements (`St2`); `JS.Py.Interp2` gives them meaning. `harness/translate.py` emits a `Fn2` for a
  function that needs these forms, a `Fn` (JS.Py.IR) otherwise.
-/
import JS.Py.IR
namespace JS.Py

/-- conditions -/
inductive Cond2 where
  | c1 (c : Cond)                 -- a condition of `JS.Py.IR` over the JSON-valued locals
  | truthyVar (x : String)        -- `if x:` for a local of any kind (an empty list of errors is falsy)
  | resolverLacksResolve          -- `resolve = getattr(validator.resolver, "resolve", None)` … `if resolve is None:`
  | notC (c : Cond2)
deriving Repr, Inhabited

/-- what a `for` (or a comprehension) runs over -/
inductive Iter2 where
  | it1 (i : Iter)                -- an iterable of `JS.Py.IR`, computed from JSON-valued locals
  | var (x : String)              -- the iterator OBJECT stored in `x` (consumed as the loop proceeds)
deriving Repr, Inhabited

inductive St2 where
  | ret
  | cont
  | brk                                                                    -- `break`
  | assign (x : String) (e : Ex)
  | assignDescendList (x : String) (inst schema : Ex) (path schemaPath : Option Ex)
      -- `x = list(validator.descend(inst, schema, path=…, schema_path=…))`
  | assignEnumerate (x : String) (e : Ex)                                   -- `x = enumerate(e)`
  | assignValidComp (x : String) (p : Pat) (it : Iter2) (inst schema elt : Ex)
      -- `x = [elt for p in it if validator.is_valid(inst, schema)]`
  | assignJoinReprs (x y : String)                                          -- `x = ", ".join(repr(v) for v in y)`
  | extend (x y : String)                                                   -- `x.extend(y)`
  | append (x : String) (e : Ex)                                            -- `x.append(e)`
  | ifS (c : Cond2) (t e : List St2)
  | forS (p : Pat) (it : Iter2) (body orelse : List St2)                    -- `for p in it: body  else: orelse`
  | descend (inst schema : Ex) (path schemaPath : Option Ex)
  | yieldErr (fmt : String) (args : List Ex)
  | yieldMsg (helper fmt : String) (args : List Ex)
  | yieldErrCtx (fmt : String) (args : List Ex) (ctx : String)              -- `yield ValidationError(fmt % args, context=ctx)`
  | yieldMsgCtx (helper fmt : String) (args : List Ex) (ctx : String)       -- `yield ValidationError(helper(args), context=ctx)`
  | newErr (x : String) (fmt : String) (args : List Ex)                     -- `x = ValidationError(fmt % args)`
  | errSet (x : String) (kw kwVal inst schema : Ex)
      -- `x._set(validator=kw, validator_value=kwVal, instance=inst, schema=schema)`
  | errPathAppendLeft (x : String) (e : Ex)                                 -- `x.path.appendleft(e)`
  | errSchemaPathExtend (x : String) (es : List Ex)                         -- `x.schema_path.extend([es…])`
  | yieldVar (x : String)                                                   -- `yield x`
  | resolveRef (x y : String) (e : Ex)                                      -- `x, y = validator.resolver.resolve(e)`
  | pushScope (e : Ex)                                                      -- `validator.resolver.push_scope(e)`
  | tryFinallyPop (body : List St2)
      -- `try: body  finally: validator.resolver.pop_scope()` (body: only `descend`/`yield` statements)
  | unsupportedSt (why : String)                                            -- a statement outside the subset (never reached in the model's world)
deriving Repr, Inhabited

inductive Fn2 where
  | body (b : List St2)
  | unsupported (why : String)
deriving Repr, Inhabited

end JS.Py
