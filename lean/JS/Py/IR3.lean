/-
  JS.Py.IR3 — abstract syntax for the two generator METHODS of the validator class that carry every
  error: `iter_errors` (the keyword loop) and `descend`, as written inside `validators.create`:
  tests with `is None` / `is True` / `is False`, `self.schema`, the class's `id_of`, the resolver's
  `push_scope`/`pop_scope` around a `try … finally`, `self.VALIDATORS.get(k)`, the call of a keyword
  function, and loops of the form `for error in <generator>: <changes to error>; yield error`.

  Expressions over JSON-valued locals embed those of `JS.Py.IR` (`Ex`). `harness/translate_methods.py`
  emits the two terms into `JS/Generated/MethodSource.lean`; `JS.Py.Interp3` gives them meaning.
-/
import JS.Py.IR
namespace JS.Py

/-- JSON-valued expressions of the methods -/
inductive MEx where
  | e (x : Ex)                                   -- an expression of `JS.Py.IR`
  | isConst (neg : Bool) (x : Ex) (c : Json)     -- `x is None` / `x is True` / `x is False` (neg: `is not`)
  | inStrs (neg : Bool) (x : Ex) (ss : List String)   -- `x in {"a", "b"}` / `x not in {…}` (a set of string literals)
  | selfSchema                                   -- `self.schema`
  | idOf (x : Ex)                                -- `id_of(x)`: the class's id function
deriving Repr, Inhabited

/-- changes to the error a `for error in …:` loop holds, before it is yielded -/
inductive ErrSt where
  | errSet (kw kwVal inst schema : MEx)          -- `error._set(validator=…, validator_value=…, instance=…, schema=…)`
  | pathAppendLeft (x : MEx)                     -- `error.path.appendleft(x)`
  | schemaPathAppendLeft (x : MEx)               -- `error.schema_path.appendleft(x)`
  | ifE (c : MEx) (t : List ErrSt)               -- `if c: t`
deriving Repr, Inhabited

/-- the (key, value) pairs a keyword loop runs over -/
inductive Pairs where
  | single (k v : MEx)                           -- `[(k, v)]`
  | items (x : MEx)                              -- `x.items()`
deriving Repr, Inhabited

inductive St3 where
  | ret
  | cont
  | assign (x : String) (e : MEx)
  | assignPairs (x : String) (p : Pairs)                              -- `x = [(k, v)]` / `x = s.items()`
  | assignKw (x : String) (k : MEx)                                   -- `x = self.VALIDATORS.get(k)`
  | ifS (c : MEx) (t e : List St3)
  | ifKwNone (x : String) (t e : List St3)                            -- `if x is None:` for a looked-up keyword function
  | forPairs (k v : String) (pairs : String) (body : List St3)        -- `for k, v in pairs:`
  | yieldErrorWith (fmt : String) (args : List MEx) (kw kwVal inst schema : MEx)
      -- `yield ValidationError(fmt % args, validator=…, validator_value=…, instance=…, schema=…)`
  | pushScope (x : MEx)                                               -- `self.resolver.push_scope(x)`
  | tryFinallyPopIf (c : MEx) (body : List St3)                       -- `try: body  finally: if c: self.resolver.pop_scope()`
  | forErrorsOfKw (fn : String) (v inst schema : MEx) (body : List ErrSt)
      -- `errors = fn(self, v, inst, schema) or ()` … `for error in errors: body; yield error`
  | forErrorsOfIter (inst schema : MEx) (body : List ErrSt)
      -- `for error in self.iter_errors(inst, schema): body; yield error`
deriving Repr, Inhabited

inductive Method where
  | body (params : List String) (b : List St3)
  | unsupported (why : String)
deriving Repr, Inhabited

end JS.Py
