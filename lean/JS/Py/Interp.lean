/-
  JS.Py.Interp — meaning of the translated keyword functions (`JS.Py.IR`): Python's dynamic
  semantics on JSON values for exactly the constructs of the subset, as generators of `JS.Gen`.

  Python values that occur: JSON values (`None`, `bool`, `int`/`float`, `str`, `list`, `dict`).
  Tuples occur only as loop items and as the right operand of `%`; both are handled structurally
  (`Pat`, the argument list of `yieldErr`).

  Not modelled (the interpreter answers `crash "Unmodelled"`; no tie theorem's hypotheses reach them):
  ordering comparisons between two arrays; path elements that are neither strings nor natural numbers.
-/
import JS.Py.IR
namespace JS.Py

abbrev Locals := List (String × Json)

def lookupVar (σ : Locals) (n : String) : Res Json :=
  match σ.lookup n with
  | some v => .ok v
  | none => .raise (.crash "NameError")

/-- `iter(x)` for the values a `for` can run over -/
def elemsOf : Json → Res (List Json)
  | .arr xs => .ok xs
  | .obj kvs => .ok (kvs.map (fun kv => Json.str kv.1))
  | .str s => .ok (s.map (fun c => Json.str [c]))
  | _ => .raise (.crash "TypeError")

def pyLen : Json → Res Json
  | .arr xs => .ok (jnat xs.length)
  | .obj kvs => .ok (jnat kvs.length)
  | .str s => .ok (jnat s.length)
  | _ => .raise (.crash "TypeError")

/-- `a < b` on two numbers (`bool` counts as `int`) with the operator's reading -/
def numCmp (op : CmpOp) (x y : Num) : Bool :=
  match op with
  | .lt => Num.lt x y
  | .le => Num.le x y
  | .gt => Num.lt y x
  | .ge => Num.le y x
  | .eq => Num.eq x y
  | .ne => !Num.eq x y

def strCmp (op : CmpOp) (s t : Str) : Bool :=
  match op with
  | .lt => decide (s < t)
  | .le => !decide (t < s)
  | .gt => decide (t < s)
  | .ge => !decide (s < t)
  | .eq => decide (s = t)
  | .ne => !decide (s = t)

def pyCmp (op : CmpOp) (a b : Json) : Res Bool :=
  match op with
  | .eq => .ok (pyEq a b)
  | .ne => .ok (!pyEq a b)
  | _ =>
    match asNum a, asNum b with
    | some x, some y => .ok (numCmp op x y)
    | _, _ =>
      match a, b with
      | .str s, .str t => .ok (strCmp op s t)
      | .arr _, .arr _ => .raise (.crash "Unmodelled")
      | _, _ => .raise (.crash "TypeError")

/-- is `sub` a contiguous part of `s` (`sub in s` for strings) -/
def isInfix (sub : Str) : Str → Bool
  | [] => sub.isEmpty
  | c :: cs => sub.isPrefixOf (c :: cs) || isInfix sub cs

/-- `x in c` -/
def pyContains (x c : Json) : Res Bool :=
  match c with
  | .obj kvs =>
    match x with
    | .str k => .ok (Json.hasKey k kvs)
    | .arr _ => .raise (.crash "TypeError")
    | .obj _ => .raise (.crash "TypeError")
    | _ => .ok false
  | .arr xs => .ok (pyIn x xs)
  | .str s =>
    match x with
    | .str sub => .ok (isInfix sub s)
    | _ => .raise (.crash "TypeError")
  | _ => .raise (.crash "TypeError")

/-- `a[k]` -/
def pyIndex (a k : Json) : Res Json :=
  match a with
  | .obj kvs =>
    match k with
    | .str key =>
      match Json.lookup key kvs with
      | some v => .ok v
      | none => .raise (.crash "KeyError")
    | .arr _ => .raise (.crash "TypeError")
    | .obj _ => .raise (.crash "TypeError")
    | _ => .raise (.crash "KeyError")
  | .arr xs =>
    match k with
    | .num (.int i) =>
      if 0 ≤ i then
        match xs[i.toNat]? with
        | some v => .ok v
        | none => .raise (.crash "IndexError")
      else if 0 ≤ i + xs.length then
        match xs[(i + xs.length).toNat]? with
        | some v => .ok v
        | none => .raise (.crash "IndexError")
      else .raise (.crash "IndexError")
    | _ => .raise (.crash "TypeError")
  | _ => .raise (.crash "TypeError")

/-- `a.get(k, d)` -/
def pyGet (a k d : Json) : Res Json :=
  match a with
  | .obj kvs =>
    match k with
    | .str key => .ok ((Json.lookup key kvs).getD d)
    | .arr _ => .raise (.crash "TypeError")
    | .obj _ => .raise (.crash "TypeError")
    | _ => .ok d
  | _ => .raise (.crash "AttributeError")

/-- `all(f x for x in xs)` / `any(…)`, short-circuiting, on truth values -/
def allLoop (f : Json → Res Json) : List Json → Res Bool
  | [] => .ok true
  | x :: xs =>
    match f x with
    | .ok v => if truthy v then allLoop f xs else .ok false
    | .raise e => .raise e
    | .miss q => .miss q

def anyLoop (f : Json → Res Json) : List Json → Res Bool
  | [] => .ok false
  | x :: xs =>
    match f x with
    | .ok v => if truthy v then .ok true else anyLoop f xs
    | .raise e => .raise e
    | .miss q => .miss q

def ensureListR (j : Json) : Res Json :=
  match ensureList j with
  | some xs => .ok (.arr xs)
  | none => .raise (.crash "TypeError")      -- `list(5)`; a dict would give its keys: not modelled apart

/-- `a[n:]` for a list or string and an integer `n` -/
def pySliceFrom (a n : Json) : Res Json :=
  match asNum n with
  | some (.int i) =>
    let k (len : Nat) : Nat := if 0 ≤ i then i.toNat else (i + len).toNat
    match a with
    | .arr xs => .ok (.arr (xs.drop (k xs.length)))
    | .str s => .ok (.str (s.drop (k s.length)))
    | _ => .raise (.crash "TypeError")
  | _ => .raise (.crash "TypeError")

/-- evaluation of an expression -/
def evalEx (env : Env) (cfg : Cfg) : Locals → Ex → Res Json
  | σ, .var n => lookupVar σ n
  | _, .str s => .ok (.str s.toList)
  | _, .int n => .ok (.num (.int n))
  | _, .bool b => .ok (.bool b)
  | _, .none_ => .ok .null
  | _, .emptyDict => .ok (.obj [])
  | _, .emptyList => .ok (.arr [])
  | σ, .list1 x => (evalEx env cfg σ x).bind fun v => .ok (.arr [v])
  | σ, .dict1 k v => (evalEx env cfg σ v).bind fun w => .ok (.obj [(k.toList, w)])
  | σ, .isType x ty =>
    (evalEx env cfg σ x).bind fun v => (evalEx env cfg σ ty).bind fun t =>
      (isType cfg v t).bind fun b => .ok (.bool b)
  | σ, .len x => (evalEx env cfg σ x).bind pyLen
  | σ, .cmp op a b =>
    (evalEx env cfg σ a).bind fun x => (evalEx env cfg σ b).bind fun y =>
      (pyCmp op x y).bind fun r => .ok (.bool r)
  | σ, .contains neg x c =>
    (evalEx env cfg σ x).bind fun v => (evalEx env cfg σ c).bind fun w =>
      (pyContains v w).bind fun r => .ok (.bool (r != neg))
  | σ, .not_ a => (evalEx env cfg σ a).bind fun v => .ok (.bool (!truthy v))
  | σ, .and_ a b => (evalEx env cfg σ a).bind fun v => if truthy v then evalEx env cfg σ b else .ok v
  | σ, .or_ a b => (evalEx env cfg σ a).bind fun v => if truthy v then .ok v else evalEx env cfg σ b
  | σ, .index a k =>
    (evalEx env cfg σ a).bind fun v => (evalEx env cfg σ k).bind fun w => pyIndex v w
  | σ, .get a k d =>
    (evalEx env cfg σ a).bind fun v => (evalEx env cfg σ k).bind fun w =>
      (evalEx env cfg σ d).bind fun dv => pyGet v w dv
  | σ, .equal a b =>
    (evalEx env cfg σ a).bind fun v => (evalEx env cfg σ b).bind fun w => .ok (.bool (equal v w))
  | σ, .uniq a =>
    (evalEx env cfg σ a).bind fun v =>
      match v with
      | .arr xs => .ok (.bool (uniq xs))
      | _ => .raise (.crash "TypeError")
  | σ, .reSearch p s =>
    (evalEx env cfg σ p).bind fun pv => (evalEx env cfg σ s).bind fun sv =>
      match pv, sv with
      | .str ps, .str ss => (search env ps ss).bind fun m => .ok (.bool m)
      | _, _ => .raise (.crash "TypeError")
  | σ, .ensureList a => (evalEx env cfg σ a).bind ensureListR
  | σ, .sliceFrom a n => (evalEx env cfg σ a).bind fun v => (evalEx env cfg σ n).bind fun w => pySliceFrom v w
  | σ, .all_ x it body =>
    (evalEx env cfg σ it).bind fun v => (elemsOf v).bind fun xs =>
      (allLoop (fun e => evalEx env cfg ((x, e) :: σ) body) xs).bind fun r => .ok (.bool r)
  | σ, .any_ x it body =>
    (evalEx env cfg σ it).bind fun v => (elemsOf v).bind fun xs =>
      (anyLoop (fun e => evalEx env cfg ((x, e) :: σ) body) xs).bind fun r => .ok (.bool r)

def evalArgs (env : Env) (cfg : Cfg) (σ : Locals) : List Ex → Res (List Json)
  | [] => .ok []
  | e :: es =>
    (evalEx env cfg σ e).bind fun v => (evalArgs env cfg σ es).bind fun vs => .ok (v :: vs)

/-- how a statement list ends: fell through (with the locals), `return`, `continue` -/
inductive Flow where
  | next (σ : Locals)
  | ret
  | cont (σ : Locals)
deriving Inhabited

/-- `any(validator.is_valid(inst, schema) for x in xs)` -/
def anyValidLoop (rec : Rec) (f : Json → Res (Json × Json)) (k : Bool → Gen) : List Json → Gen
  | [] => k false
  | x :: xs =>
    withRes (f x) fun p =>
      innerValid (rec p.1 p.2) fun ok => if ok then k true else anyValidLoop rec f k xs

def evalCond (env : Env) (cfg : Cfg) (rec : Rec) (σ : Locals) : Cond → (Bool → Gen) → Gen
  | .ex e, k => withRes (evalEx env cfg σ e) fun v => k (truthy v)
  | .isValid i s, k =>
    withRes (evalEx env cfg σ i) fun iv => withRes (evalEx env cfg σ s) fun sv =>
      innerValid (rec iv sv) k
  | .anyValid x it i s, k =>
    withRes (evalEx env cfg σ it) fun v => withRes (elemsOf v) fun xs =>
      anyValidLoop rec (fun e =>
        (evalEx env cfg ((x, e) :: σ) i).bind fun iv =>
          (evalEx env cfg ((x, e) :: σ) s).bind fun sv => .ok (iv, sv)) k xs
  | .notC c, k => evalCond env cfg rec σ c (fun b => k (!b))

/-- the tuples a `for` receives -/
def iterItems (env : Env) (cfg : Cfg) (σ : Locals) : Iter → Res (List (List Json))
  | .elems x => (evalEx env cfg σ x).bind fun v => (elemsOf v).bind fun xs => .ok (xs.map fun e => [e])
  | .items x =>
    (evalEx env cfg σ x).bind fun v =>
      match v with
      | .obj kvs => .ok (kvs.map fun kv => [Json.str kv.1, kv.2])
      | _ => .raise (.crash "AttributeError")
  | .enumerate x =>
    (evalEx env cfg σ x).bind fun v => (elemsOf v).bind fun xs =>
      .ok ((enumFrom 0 xs).map fun t => [jnat t.1, t.2])
  | .zipEnum x y =>
    (evalEx env cfg σ x).bind fun v => (elemsOf v).bind fun xs =>
      (evalEx env cfg σ y).bind fun w => (elemsOf w).bind fun ys =>
        .ok (((enumFrom 0 xs).zip ys).map fun t => [jnat t.1.1, t.1.2, t.2])

  | .enumerateFrom x start =>
    (evalEx env cfg σ x).bind fun v => (elemsOf v).bind fun xs =>
      (evalEx env cfg σ start).bind fun w =>
        match asNum w with
        | some (.int i) => .ok ((enumFrom 0 xs).map fun t => [Json.num (.int (i + t.1)), t.2])
        | _ => .raise (.crash "TypeError")

def bindPat : Pat → List Json → Locals → Option Locals
  | .one a, [x], σ => some ((a, x) :: σ)
  | .two a b, [x, y], σ => some ((b, y) :: (a, x) :: σ)
  | .three a b c, [x, y, z], σ => some ((c, z) :: (b, y) :: (a, x) :: σ)
  | _, _, _ => none

/-- the `for` loop: `step` runs the body on one item -/
def forLoop (step : List Json → Locals → (Flow → Gen) → Gen) :
    List (List Json) → Locals → (Flow → Gen) → Gen
  | [], σ, k => k (.next σ)
  | x :: xs, σ, k =>
    step x σ fun fl =>
      match fl with
      | .next σ' => forLoop step xs σ' k
      | .cont σ' => forLoop step xs σ' k
      | .ret => k .ret

/-- a value used as `path=` / `schema_path=` -/
def pathElemOf : Json → Res PathElem
  | .str s => .ok (.key s)
  | .num (.int i) => if 0 ≤ i then .ok (.idx i.toNat) else .raise (.crash "Unmodelled")
  | _ => .raise (.crash "Unmodelled")

def optPath (env : Env) (cfg : Cfg) (σ : Locals) : Option Ex → Res (Option PathElem)
  | none => .ok none
  | some e => (evalEx env cfg σ e).bind fun v => (pathElemOf v).bind fun p => .ok (some p)

/-- wording → the model's template name (the wording itself is rendered by the harness) -/
def tmplOf (fmt : String) : String :=
  match fmt with
  | "%r was expected" => "const"
  | "None of %r are valid under the given schema" => "contains"
  | "%r is less than or equal to the minimum of %r" => "exclusiveMinimum"
  | "%r is greater than or equal to the maximum of %r" => "exclusiveMaximum"
  | "%r is less than the minimum of %r" => "minimum"
  | "%r is greater than the maximum of %r" => "maximum"
  | "%r is not a multiple of %r" => "multipleOf"
  | "%r is too short" => "tooShort"
  | "%r is too long" => "tooLong"
  | "%r has non-unique elements" => "uniqueItems"
  | "%r does not match %r" => "pattern"
  | "%r is a dependency of %r" => "dependency"
  | "%r is not one of %r" => "enum"
  | "%r is a required property" => "required"
  | "%r does not have enough properties" => "minProperties"
  | "%r has too many properties" => "maxProperties"
  | "%r is not allowed for %r" => "not"
  | "%r is disallowed for %r" => "disallow"
  | "Additional items are not allowed (%s %s unexpected)" => "addItems"
  | "%r is not valid under any of the given schemas" => "anyOf"
  | "False schema does not allow %r" => "false"
  | "%r is valid under each of %s" => "oneOfMore"
  | other => "?" ++ other

/-- `fmt % args` as far as `%s` with a string argument goes: the string is spliced in, `%r`
    directives and their arguments stay for the harness to render -/
def spliceS : List Char → List Json → List Char × List Json
  | '%' :: 's' :: rest, (.str s) :: args =>
    let r := spliceS rest args
    (s ++ r.1, r.2)
  | '%' :: c :: rest, a :: args =>
    let r := spliceS rest args
    ('%' :: c :: r.1, a :: r.2)
  | c :: rest, args =>
    let r := spliceS rest args
    (c :: r.1, r.2)
  | [], args => ([], args)

def mkErr (fmt : String) (args : List Json) : Err :=
  let r := spliceS fmt.toList args
  Err.fresh (tmplOf (String.ofList r.1)) r.2

/-- the error whose wording a helper of `_utils` builds: the model's template takes the helper's
    arguments (`extras_msg(extras)`: the list of extras; `types_msg(instance, types)`: both) and the
    harness renders it with the real helper's wording -/
def helperErr (helper fmt : String) (args : List Json) : Err :=
  match helper with
  | "extras_msg" => Err.fresh (tmplOf fmt) args
  | "types_msg" => Err.fresh "type" args
  | other => Err.fresh ("?" ++ other) args

mutual
/-- one statement, continuation-passing: `k` receives how the statement ended -/
def exec (env : Env) (cfg : Cfg) (rec : Rec) : St → Locals → (Flow → Gen) → Gen
  | .ret, _, k => k .ret
  | .cont, σ, k => k (.cont σ)
  | .assign x e, σ, k => withRes (evalEx env cfg σ e) fun v => k (.next ((x, v) :: σ))
  | .ifS c t e, σ, k =>
    evalCond env cfg rec σ c fun b =>
      if b then execList env cfg rec t σ k else execList env cfg rec e σ k
  | .forS p it body, σ, k =>
    withRes (iterItems env cfg σ it) fun items =>
      forLoop (fun item σ' k' =>
        match bindPat p item σ' with
        | some σ'' => execList env cfg rec body σ'' k'
        | none => crashG "ValueError") items σ k
  | .descend i s path sp, σ, k =>
    withRes (evalEx env cfg σ i) fun iv => withRes (evalEx env cfg σ s) fun sv =>
      withRes (optPath env cfg σ path) fun p => withRes (optPath env cfg σ sp) fun q =>
        andThen (descendG (rec iv sv) p q) (k (.next σ))
  | .yieldErr fmt args, σ, k =>
    withRes (evalArgs env cfg σ args) fun vs => andThen (emit [mkErr fmt vs]) (k (.next σ))
  | .yieldMsg helper fmt args, σ, k =>
    withRes (evalArgs env cfg σ args) fun vs => andThen (emit [helperErr helper fmt vs]) (k (.next σ))

def execList (env : Env) (cfg : Cfg) (rec : Rec) : List St → Locals → (Flow → Gen) → Gen
  | [], σ, k => k (.next σ)
  | s :: rest, σ, k =>
    exec env cfg rec s σ fun fl =>
      match fl with
      | .next σ' => execList env cfg rec rest σ' k
      | other => k other
end

/-- the keyword function `f(validator, value, instance, schema)` as a generator -/
def Fn.run (env : Env) (cfg : Cfg) (rec : Rec) (f : Fn) (value inst schema : Json) : Gen :=
  match f with
  | .body b =>
    execList env cfg rec b [("value", value), ("instance", inst), ("schema", schema)] (fun _ => nothing)
  | .unsupported _ => crashG "UnsupportedSource"

end JS.Py
