/-
  JS.Py.Interp2 — meaning of the richer subset (`JS.Py.IR2`): local variables may hold, besides JSON
  values, lists of error objects, one error object under construction, or an iterator.

  JSON-valued expressions (`Ex`) are evaluated by `JS.Py.Interp.evalEx` on the JSON-valued part of the
  store (`Store.js`: a name whose CURRENT value is not JSON is not visible there).
-/
import JS.Py.IR2
import JS.Py.Interp
namespace JS.Py

/-- values of local variables -/
inductive PV where
  | j (v : Json)
  | errs (es : List Err)                -- a Python list of ValidationError objects
  | err (e : Err)                       -- one ValidationError object
  | iter (items : List (List Json))     -- an iterator object: the tuples it has not yielded yet
deriving Inhabited

abbrev Store := List (String × PV)

/-- the JSON-valued locals, as `evalEx` sees them (shadowing respected) -/
def Store.js : Store → Locals
  | [] => []
  | (n, .j v) :: rest => (n, v) :: Store.js rest
  | (n, _) :: rest => (Store.js rest).filter (fun p => p.1 != n)

def Store.get (σ : Store) (x : String) : Res PV :=
  match σ.lookup x with
  | some v => .ok v
  | none => .raise (.crash "NameError")

/-- Python truthiness of a local -/
def PV.truthy : PV → Bool
  | .j v => JS.truthy v
  | .errs es => !es.isEmpty
  | .err _ => true
  | .iter _ => true

/-- `x.extend(y)` for lists: JSON lists, lists of errors, and the empty list `[]` that becomes either -/
def pvExtend : PV → PV → Res PV
  | .errs a, .errs b => .ok (.errs (a ++ b))
  | .j (.arr []), .errs b => .ok (.errs b)
  | .errs a, .j (.arr []) => .ok (.errs a)
  | .j (.arr a), .j (.arr b) => .ok (.j (.arr (a ++ b)))
  | _, _ => .raise (.crash "Unmodelled")

/-- the list of errors a local holds when it is used as `context=` -/
def pvErrs : PV → Res (List Err)
  | .errs es => .ok es
  | .j (.arr []) => .ok []
  | _ => .raise (.crash "Unmodelled")

/-- how a statement list ends -/
inductive Flow2 where
  | next (σ : Store)
  | ret
  | cont (σ : Store)
  | brk (σ : Store)
deriving Inhabited

def evalCond2 (env : Env) (cfg : Cfg) (rec : Rec) (σ : Store) : Cond2 → (Bool → Gen) → Gen
  | .c1 c, k => evalCond env cfg rec σ.js c k
  | .truthyVar x, k => withRes (σ.get x) fun v => k v.truthy
  | .resolverLacksResolve, k => k false     -- the model's resolver is `RefResolver`, which has `resolve`
  | .notC c, k => evalCond2 env cfg rec σ c (fun b => k (!b))

/-- the tuples a loop will receive, and (for a stored iterator) the name it is stored under -/
def iterItems2 (env : Env) (cfg : Cfg) (σ : Store) : Iter2 → Res (List (List Json) × Option String)
  | .it1 i => (iterItems env cfg σ.js i).bind fun items => .ok (items, none)
  | .var x =>
    (σ.get x).bind fun v =>
      match v with
      | .iter items => .ok (items, some x)
      | .j w => (elemsOf w).bind fun xs => .ok (xs.map (fun e => [e]), none)     -- a list: iterated, not consumed
      | _ => .raise (.crash "Unmodelled")

/-- bind loop targets (JSON values) in the store -/
def bindPat2 (p : Pat) (item : List Json) (σ : Store) : Option Store :=
  match p, item with
  | .one a, [x] => some ((a, .j x) :: σ)
  | .two a b, [x, y] => some ((b, .j y) :: (a, .j x) :: σ)
  | .three a b c, [x, y, z] => some ((c, .j z) :: (b, .j y) :: (a, .j x) :: σ)
  | _, _ => none

/-- after the iterator stored under `x` has yielded an item, `rest` is what is left of it -/
def consume (stored : Option String) (rest : List (List Json)) (σ : Store) : Store :=
  match stored with
  | some x => (x, .iter rest) :: σ
  | none => σ

/-- the loop: `.next` = exhausted (the `else` clause runs), `.brk` = left by `break` -/
def forLoop2 (stored : Option String) (step : List Json → Store → (Flow2 → Gen) → Gen) :
    List (List Json) → Store → (Flow2 → Gen) → Gen
  | [], σ, k => k (.next σ)
  | x :: xs, σ, k =>
    step x (consume stored xs σ) fun fl =>
      match fl with
      | .next σ' => forLoop2 stored step xs σ' k
      | .cont σ' => forLoop2 stored step xs σ' k
      | .brk σ' => k (.brk σ')
      | .ret => k .ret

/-- `[elt for p in items if validator.is_valid(inst, schema)]`: the values collected so far in `acc` -/
def validComp (env : Env) (cfg : Cfg) (rec : Rec) (p : Pat) (inst schema elt : Ex) (σ : Store)
    (k : List Json → Gen) : List (List Json) → List Json → Gen
  | [], acc => k acc
  | item :: rest, acc =>
    match bindPat2 p item σ with
    | none => crashG "ValueError"
    | some σ' =>
      withRes (evalEx env cfg σ'.js inst) fun iv => withRes (evalEx env cfg σ'.js schema) fun sv =>
        innerValid (rec iv sv) fun ok =>
          if ok then withRes (evalEx env cfg σ'.js elt) fun ev => validComp env cfg rec p inst schema elt σ k rest (acc ++ [ev])
          else validComp env cfg rec p inst schema elt σ k rest acc

/-- `ValidationError(fmt % args, context=ctx)` -/
def mkErrCtx (fmt : String) (args : List Json) (ctx : List Err) : Err :=
  let r := spliceS fmt.toList args
  Err.fresh (tmplOf (String.ofList r.1)) r.2 ctx

def helperErrCtx (helper fmt : String) (args : List Json) (ctx : List Err) : Err :=
  match helper with
  | "extras_msg" => Err.fresh (tmplOf fmt) args ctx
  | "types_msg" => Err.fresh "type" args ctx
  | other => Err.fresh ("?" ++ other) args ctx

/-- `error.schema_path.extend([…])`: on the right -/
def Err.extendSchemaPath (ps : List PathElem) : Err → Err
  | .mk m i p sp c ca => .mk m i p (sp ++ ps) c ca

def pathElems (env : Env) (cfg : Cfg) (σ : Locals) : List Ex → Res (List PathElem)
  | [] => .ok []
  | e :: es =>
    (evalEx env cfg σ e).bind fun v => (pathElemOf v).bind fun p =>
      (pathElems env cfg σ es).bind fun ps => .ok (p :: ps)

/-- `validator.resolver.resolve(v)` for any value `v` (see `JS.refReading`): the resolver's state moves -/
def resolveAny (env : Env) (v : Json) (st : RState) : Res (Str × Json) × RState :=
  match refReading v with
  | .ref r => resolve env r st
  | .emptyOrUnresolvable => if st.top.isEmpty then (.raise .refResolution, st) else resolve env [] st
  | .typeError => (.raise (.crash "TypeError"), st)

/-- run `g`, then `pop_scope()` — on EVERY exit (the `finally`) -/
def popAfter (g : Gen) : Gen := fun b st =>
  match g b st with
  | ⟨es, s, st'⟩ => ⟨es, s, { st' with scopes := st'.scopes.tail }⟩

mutual
def exec2 (env : Env) (cfg : Cfg) (rec : Rec) : St2 → Store → (Flow2 → Gen) → Gen
  | .ret, _, k => k .ret
  | .cont, σ, k => k (.cont σ)
  | .brk, σ, k => k (.brk σ)
  | .assign x e, σ, k => withRes (evalEx env cfg σ.js e) fun v => k (.next ((x, .j v) :: σ))
  | .assignDescendList x i s path sp, σ, k =>
    withRes (evalEx env cfg σ.js i) fun iv => withRes (evalEx env cfg σ.js s) fun sv =>
      withRes (optPath env cfg σ.js path) fun p => withRes (optPath env cfg σ.js sp) fun q =>
        inner (descendG (rec iv sv) p q) none fun es => k (.next ((x, .errs es) :: σ))
  | .assignEnumerate x e, σ, k =>
    withRes (evalEx env cfg σ.js e) fun v => withRes (elemsOf v) fun xs =>
      k (.next ((x, .iter ((enumFrom 0 xs).map fun t => [jnat t.1, t.2])) :: σ))
  | .assignValidComp x p it i s elt, σ, k =>
    withRes (iterItems2 env cfg σ it) fun r =>
      validComp env cfg rec p i s elt σ (fun vals => k (.next ((x, .j (.arr vals)) :: consume r.2 [] σ))) r.1 []
  | .assignJoinReprs x y, σ, k =>
    -- the wording (`repr` of each, joined) is the harness's business: the model keeps the list
    withRes (σ.get y) fun v => k (.next ((x, v) :: σ))
  | .extend x y, σ, k =>
    withRes (σ.get x) fun a => withRes (σ.get y) fun b => withRes (pvExtend a b) fun c => k (.next ((x, c) :: σ))
  | .append x e, σ, k =>
    withRes (σ.get x) fun a => withRes (evalEx env cfg σ.js e) fun v =>
      match a with
      | .j (.arr xs) => k (.next ((x, .j (.arr (xs ++ [v]))) :: σ))
      | _ => crashG "Unmodelled"
  | .ifS c t e, σ, k =>
    evalCond2 env cfg rec σ c fun b =>
      if b then execList2 env cfg rec t σ k else execList2 env cfg rec e σ k
  | .forS p it body orelse, σ, k =>
    withRes (iterItems2 env cfg σ it) fun r =>
      forLoop2 r.2 (fun item σ' k' =>
        match bindPat2 p item σ' with
        | some σ'' => execList2 env cfg rec body σ'' k'
        | none => crashG "ValueError") r.1 σ fun fl =>
          match fl with
          | .next σ' => execList2 env cfg rec orelse σ' k
          | .brk σ' => k (.next σ')
          | other => k other
  | .descend i s path sp, σ, k =>
    withRes (evalEx env cfg σ.js i) fun iv => withRes (evalEx env cfg σ.js s) fun sv =>
      withRes (optPath env cfg σ.js path) fun p => withRes (optPath env cfg σ.js sp) fun q =>
        andThen (descendG (rec iv sv) p q) (k (.next σ))
  | .yieldErr fmt args, σ, k =>
    withRes (evalArgs env cfg σ.js args) fun vs => andThen (emit [mkErr fmt vs]) (k (.next σ))
  | .yieldMsg helper fmt args, σ, k =>
    withRes (evalArgs env cfg σ.js args) fun vs => andThen (emit [helperErr helper fmt vs]) (k (.next σ))
  | .yieldErrCtx fmt args ctx, σ, k =>
    withRes (evalArgs env cfg σ.js args) fun vs => withRes ((σ.get ctx).bind pvErrs) fun es =>
      andThen (emit [mkErrCtx fmt vs es]) (k (.next σ))
  | .yieldMsgCtx helper fmt args ctx, σ, k =>
    withRes (evalArgs env cfg σ.js args) fun vs => withRes ((σ.get ctx).bind pvErrs) fun es =>
      andThen (emit [helperErrCtx helper fmt vs es]) (k (.next σ))
  | .newErr x fmt args, σ, k =>
    withRes (evalArgs env cfg σ.js args) fun vs => k (.next ((x, .err (mkErr fmt vs)) :: σ))
  | .errSet x kw kwVal i s, σ, k =>
    withRes (σ.get x) fun a =>
      withRes (evalEx env cfg σ.js kw) fun kv => withRes (evalEx env cfg σ.js kwVal) fun vv =>
        withRes (evalEx env cfg σ.js i) fun iv => withRes (evalEx env cfg σ.js s) fun sv =>
          match a, kv with
          | .err e, .str name => k (.next ((x, .err (e.setInfo ⟨some name, vv, iv, sv⟩)) :: σ))
          | _, _ => crashG "Unmodelled"
  | .errPathAppendLeft x e, σ, k =>
    withRes (σ.get x) fun a => withRes ((evalEx env cfg σ.js e).bind pathElemOf) fun p =>
      match a with
      | .err er => k (.next ((x, .err (er.consPath p)) :: σ))
      | _ => crashG "Unmodelled"
  | .errSchemaPathExtend x es, σ, k =>
    withRes (σ.get x) fun a => withRes (pathElems env cfg σ.js es) fun ps =>
      match a with
      | .err er => k (.next ((x, .err (Err.extendSchemaPath ps er)) :: σ))
      | _ => crashG "Unmodelled"
  | .yieldVar x, σ, k =>
    withRes (σ.get x) fun a =>
      match a with
      | .err er => andThen (emit [er]) (k (.next σ))
      | _ => crashG "Unmodelled"
  | .resolveRef x y e, σ, k =>
    withRes (evalEx env cfg σ.js e) fun v => fun b st =>
      match resolveAny env v st with
      | (.ok (url, target), st1) => k (.next ((y, .j target) :: (x, .j (.str url)) :: σ)) b st1
      | (.raise ex, st1) => ⟨[], .raised ex, st1⟩
      | (.miss q, st1) => ⟨[], .miss q, st1⟩
  | .pushScope e, σ, k =>
    withRes (evalEx env cfg σ.js e) fun v =>
      match v with
      | .str scope => fun b st =>
        match env.urljoin st.top scope with
        | none => ⟨[], .miss (.urljoin st.top scope), st⟩
        | some u => k (.next σ) b { st with scopes := u :: st.scopes }
      | _ => crashG "TypeError"
  | .tryFinallyPop body, σ, k =>
    andThen (popAfter (execList2 env cfg rec body σ (fun _ => nothing))) (k (.next σ))
  | .unsupportedSt _, _, _ => crashG "Unmodelled"

def execList2 (env : Env) (cfg : Cfg) (rec : Rec) : List St2 → Store → (Flow2 → Gen) → Gen
  | [], σ, k => k (.next σ)
  | s :: rest, σ, k =>
    exec2 env cfg rec s σ fun fl =>
      match fl with
      | .next σ' => execList2 env cfg rec rest σ' k
      | other => k other
end

/-- the keyword function as a generator -/
def Fn2.run (env : Env) (cfg : Cfg) (rec : Rec) (f : Fn2) (value inst schema : Json) : Gen :=
  match f with
  | .body b =>
    execList2 env cfg rec b [("value", .j value), ("instance", .j inst), ("schema", .j schema)] (fun _ => nothing)
  | .unsupported _ => crashG "UnsupportedSource"

end JS.Py
