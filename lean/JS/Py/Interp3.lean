/-
  JS.Py.Interp3 — meaning of the validator class's generator methods (`JS.Py.IR3`).

  `self` is the validator: its class is `cfg` (keyword table, type table, id key, format checker),
  `self.schema` is `root`, `self.resolver` is the resolver state threaded through the generator,
  `self.iter_errors` is `rec` (one level down), a keyword function looked up in `self.VALIDATORS` is
  called through `applyKw` (the model's keyword functions; `JS/Props/Tie.lean` ties those to their own
  source).
  Not modelled: expressions inside the body of a `for error in …` loop are evaluated once, before the
  loop (they are variables and constants there; Python evaluates them per error, to the same values).
-/
import JS.Py.IR3
import JS.Py.Interp
namespace JS.Py

structure Store3 where
  js : Locals
  pairs : List (String × List (Str × Json))
  kws : List (String × Option KwFn)
deriving Inhabited

inductive Flow3 where
  | next (σ : Store3)
  | ret
  | cont (σ : Store3)
deriving Inhabited

/-- `id_of(schema)` of the class: the raw value of the id keyword, `""` for booleans and next to `$ref` -/
def idOfJ (cfg : Cfg) : Json → Res Json
  | .bool _ => .ok (.str [])
  | .obj kvs =>
    if Json.hasKey (skey "$ref") kvs then .ok (.str [])
    else .ok ((Json.lookup cfg.idKey kvs).getD (.str []))
  | .num _ => .raise (.crash "TypeError")         -- `"$ref" in 5`
  | .null => .raise (.crash "TypeError")
  | _ => .raise (.crash "AttributeError")        -- strings and lists answer `in`, then have no `.get`

def evalM (env : Env) (cfg : Cfg) (root : Json) (σ : Locals) : MEx → Res Json
  | .e x => evalEx env cfg σ x
  | .isConst neg x c => (evalEx env cfg σ x).bind fun v => .ok (.bool ((v == c) != neg))
  | .inStrs neg x ss =>
    (evalEx env cfg σ x).bind fun v =>
      match v with
      | .str s => .ok (.bool ((ss.any fun t => t.toList == s) != neg))
      | .arr _ => .raise (.crash "TypeError")
      | .obj _ => .raise (.crash "TypeError")
      | _ => .ok (.bool (false != neg))
  | .selfSchema => .ok root
  | .idOf x => (evalEx env cfg σ x).bind (idOfJ cfg)

def evalMs (env : Env) (cfg : Cfg) (root : Json) (σ : Locals) : List MEx → Res (List Json)
  | [] => .ok []
  | e :: es => (evalM env cfg root σ e).bind fun v => (evalMs env cfg root σ es).bind fun vs => .ok (v :: vs)

/-- the keyword an error is stamped with: `None` or a string -/
def kwOf : Json → Res (Option Str)
  | .null => .ok none
  | .str s => .ok (some s)
  | _ => .raise (.crash "Unmodelled")

/-- the changes a loop body makes to its error, with every expression already evaluated -/
def compileErrBody (env : Env) (cfg : Cfg) (root : Json) (σ : Locals) : List ErrSt → Res (Err → Err)
  | [] => .ok id
  | .errSet kw kwVal i s :: rest =>
    (evalM env cfg root σ kw).bind fun kv => (kwOf kv).bind fun k =>
      (evalM env cfg root σ kwVal).bind fun vv => (evalM env cfg root σ i).bind fun iv =>
        (evalM env cfg root σ s).bind fun sv =>
          (compileErrBody env cfg root σ rest).bind fun f => .ok (fun e => f (e.setInfo ⟨k, vv, iv, sv⟩))
  | .pathAppendLeft x :: rest =>
    (evalM env cfg root σ x).bind fun v => (pathElemOf v).bind fun p =>
      (compileErrBody env cfg root σ rest).bind fun f => .ok (fun e => f (e.consPath p))
  | .schemaPathAppendLeft x :: rest =>
    (evalM env cfg root σ x).bind fun v => (pathElemOf v).bind fun p =>
      (compileErrBody env cfg root σ rest).bind fun f => .ok (fun e => f (e.consSchemaPath p))
  | .ifE c t :: rest =>
    (evalM env cfg root σ c).bind fun cv =>
      (compileErrBody env cfg root σ rest).bind fun f =>
        if truthy cv then (compileErrBody env cfg root σ t).bind fun g => .ok (fun e => f (g e))
        else .ok f
termination_by l => sizeOf l

def evalPairs (env : Env) (cfg : Cfg) (root : Json) (σ : Locals) : Pairs → Res (List (Str × Json))
  | .single k v =>
    (evalM env cfg root σ k).bind fun kv => (evalM env cfg root σ v).bind fun vv =>
      match kv with
      | .str s => .ok [(s, vv)]
      | _ => .raise (.crash "Unmodelled")
  | .items x =>
    (evalM env cfg root σ x).bind fun v =>
      match v with
      | .obj kvs => .ok kvs
      | _ => .raise (.crash "AttributeError")

/-- `self.VALIDATORS.get(k)` -/
def kwLookup (cfg : Cfg) : Json → Res (Option KwFn)
  | .str name => .ok (lookupS name cfg.keywords)
  | .arr _ => .raise (.crash "TypeError")
  | .obj _ => .raise (.crash "TypeError")
  | _ => .ok none

def forPairsLoop (step : Str × Json → Store3 → (Flow3 → Gen) → Gen) :
    List (Str × Json) → Store3 → (Flow3 → Gen) → Gen
  | [], σ, k => k (.next σ)
  | x :: xs, σ, k =>
    step x σ fun fl =>
      match fl with
      | .next σ' => forPairsLoop step xs σ' k
      | .cont σ' => forPairsLoop step xs σ' k
      | .ret => k .ret

/-- run `g`, then `pop_scope()` if `doPop` — on EVERY exit (the `finally`) -/
def popAfterIf (doPop : Bool) (g : Gen) : Gen := fun b st =>
  match g b st with
  | ⟨es, s, st'⟩ => ⟨es, s, if doPop then { st' with scopes := st'.scopes.tail } else st'⟩

mutual
def exec3 (env : Env) (impl : FmtImpl) (cfg : Cfg) (rec : Rec) (root : Json) : St3 → Store3 → (Flow3 → Gen) → Gen
  | .ret, _, k => k .ret
  | .cont, σ, k => k (.cont σ)
  | .assign x e, σ, k => withRes (evalM env cfg root σ.js e) fun v => k (.next { σ with js := (x, v) :: σ.js })
  | .assignPairs x p, σ, k =>
    withRes (evalPairs env cfg root σ.js p) fun ps => k (.next { σ with pairs := (x, ps) :: σ.pairs })
  | .assignKw x ke, σ, k =>
    withRes ((evalM env cfg root σ.js ke).bind (kwLookup cfg)) fun f => k (.next { σ with kws := (x, f) :: σ.kws })
  | .ifS c t e, σ, k =>
    withRes (evalM env cfg root σ.js c) fun v =>
      if truthy v then execList3 env impl cfg rec root t σ k else execList3 env impl cfg rec root e σ k
  | .ifKwNone x t e, σ, k =>
    match σ.kws.lookup x with
    | some none => execList3 env impl cfg rec root t σ k
    | some (some _) => execList3 env impl cfg rec root e σ k
    | none => crashG "NameError"
  | .forPairs kn vn pairs body, σ, k =>
    match σ.pairs.lookup pairs with
    | none => crashG "NameError"
    | some ps =>
      forPairsLoop (fun kv σ' k' =>
        execList3 env impl cfg rec root body { σ' with js := (vn, kv.2) :: (kn, .str kv.1) :: σ'.js } k') ps σ k
  | .yieldErrorWith fmt args kw kwVal i s, σ, k =>
    withRes (evalMs env cfg root σ.js args) fun vs =>
      withRes ((evalM env cfg root σ.js kw).bind kwOf) fun kk => withRes (evalM env cfg root σ.js kwVal) fun vv =>
        withRes (evalM env cfg root σ.js i) fun iv => withRes (evalM env cfg root σ.js s) fun sv =>
          andThen (emit [(mkErr fmt vs).setInfo ⟨kk, vv, iv, sv⟩]) (k (.next σ))
  | .pushScope x, σ, k =>
    withRes (evalM env cfg root σ.js x) fun v =>
      match v with
      | .str scope => fun b st =>
        match env.urljoin st.top scope with
        | none => ⟨[], .miss (.urljoin st.top scope), st⟩
        | some u => k (.next σ) b { st with scopes := u :: st.scopes }
      | _ => crashG "TypeError"
  | .tryFinallyPopIf c body, σ, k =>
    withRes (evalM env cfg root σ.js c) fun cv =>
      andThen (popAfterIf (truthy cv) (execList3 env impl cfg rec root body σ (fun _ => nothing))) (k (.next σ))
  | .forErrorsOfKw fn v i s body, σ, k =>
    match σ.kws.lookup fn with
    | some (some f) =>
      withRes (evalM env cfg root σ.js v) fun vv => withRes (evalM env cfg root σ.js i) fun iv =>
        withRes (evalM env cfg root σ.js s) fun sv =>
          withRes (compileErrBody env cfg root σ.js body) fun g =>
            andThen (mapErrs g (applyKw env impl cfg rec f vv iv sv)) (k (.next σ))
    | some none => crashG "TypeError"          -- calling None
    | none => crashG "NameError"
  | .forErrorsOfIter i s body, σ, k =>
    withRes (evalM env cfg root σ.js i) fun iv => withRes (evalM env cfg root σ.js s) fun sv =>
      withRes (compileErrBody env cfg root σ.js body) fun g =>
        andThen (mapErrs g (rec iv sv)) (k (.next σ))

def execList3 (env : Env) (impl : FmtImpl) (cfg : Cfg) (rec : Rec) (root : Json) :
    List St3 → Store3 → (Flow3 → Gen) → Gen
  | [], σ, k => k (.next σ)
  | s :: rest, σ, k =>
    exec3 env impl cfg rec root s σ fun fl =>
      match fl with
      | .next σ' => execList3 env impl cfg rec root rest σ' k
      | other => k other
end

/-- the method called with the given arguments (after `self`) -/
def Method.run (env : Env) (impl : FmtImpl) (cfg : Cfg) (rec : Rec) (root : Json) (m : Method) (args : List Json) : Gen :=
  match m with
  | .body params b =>
    if params.length = args.length then
      execList3 env impl cfg rec root b ⟨(params.zip args).reverse, [], []⟩ (fun _ => nothing)
    else crashG "TypeError"
  | .unsupported _ => crashG "UnsupportedSource"

end JS.Py
