/-
  JS.Py.Pred — abstract syntax and meaning of the type predicates of `jsonschema/_types.py`
  (`is_array`, `is_bool`, `is_integer`, `is_null`, `is_number`, `is_object`, `is_string`, `is_any` and
  the Draft 6/7 `integer` lambda): functions `(checker, instance) → bool` built from `isinstance`,
  `is None`, constants, calls of one another, `and`/`or`/`not`, `if …: return …` and `return …`.

  `harness/translate.py` emits one `PFn` per predicate into `JS/Generated/TypeSource.lean` on every run;
  `JS/Props/Tie.lean` proves each equal to the `TyFn` the regenerated type tables bind the name to.
-/
import JS.PyOps
namespace JS.Py

/-- boolean-valued expressions over the arguments `(checker, instance)` -/
inductive PEx where
  | isinstance (cls : String)     -- `isinstance(instance, cls)`: "list" "bool" "int" "float" "dict" "str" "Number" "NoneType"
  | isNone                        -- `instance is None`
  | const (b : Bool)
  | call (name : String)          -- `name(checker, instance)`: another predicate of the file
  | floatIsInteger                -- `instance.is_integer()`
  | not_ (a : PEx)
  | and_ (a b : PEx)
  | or_ (a b : PEx)
deriving Repr, Inhabited

inductive PSt where
  | ifRet (c v : PEx)             -- `if c: return v`
  | ret (v : PEx)                 -- `return v`
deriving Repr, Inhabited

inductive PFn where
  | body (b : List PSt)
  | unsupported (why : String)
deriving Repr, Inhabited

/-- `instance.is_integer()`: a float method (`int` has it only since Python 3.12: also modelled) -/
def pyFloatIsInteger : Json → Except String Bool
  | .num n => .ok n.isIntegral
  | _ => .error "AttributeError"

/-- evaluation; `fns` resolves the names of other predicates, `call` runs one of them (one level
    of nesting less) -/
def PEx.eval (fns : String → Option PFn) (call : PFn → Json → Except String Bool) (j : Json) :
    PEx → Except String Bool
  | .isinstance cls => .ok (pyIsInstance j cls)
  | .isNone => .ok (match j with | .null => true | _ => false)
  | .const b => .ok b
  | .call name =>
    match fns name with
    | some f => call f j
    | none => .error "NameError"
  | .floatIsInteger => pyFloatIsInteger j
  | .not_ a => (PEx.eval fns call j a).map (!·)
  | .and_ a b => (PEx.eval fns call j a).bind fun x => if x then PEx.eval fns call j b else .ok false
  | .or_ a b => (PEx.eval fns call j a).bind fun x => if x then .ok true else PEx.eval fns call j b

def runStmts (fns : String → Option PFn) (call : PFn → Json → Except String Bool) (j : Json) :
    List PSt → Except String Bool
  | [] => .error "ReturnsNone"          -- falling off the end returns None: not a bool
  | .ret v :: _ => PEx.eval fns call j v
  | .ifRet c v :: rest =>
    (PEx.eval fns call j c).bind fun x =>
      if x then PEx.eval fns call j v else runStmts fns call j rest

/-- the predicate `f(checker, instance)`; the first argument bounds the nesting of calls -/
def PFn.run (fns : String → Option PFn) : Nat → PFn → Json → Except String Bool
  | 0, _, _ => .error "RecursionError"
  | n + 1, .body b, j => runStmts fns (PFn.run fns n) j b
  | _ + 1, .unsupported _, _ => .error "UnsupportedSource"

end JS.Py
