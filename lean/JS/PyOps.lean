/-
  JS.PyOps — Python primitive operations on JSON values: `==`, truthiness,
  `in`, the `_utils` equality helpers (`unbool`, `equal`, `uniq`), type predicates.
-/
import JS.Num
namespace JS

/-- a boolean seen as the int it is in Python -/
def boolNum (b : Bool) : Num := .int (if b then 1 else 0)

/-- find the first binding of `k` and test its value with `p` (`k in d and p(d[k])`) -/
def lookupWith (k : Str) (p : Json → Bool) : List (Str × Json) → Bool
  | [] => false
  | (k', v') :: ys => if k' = k then p v' else lookupWith k p ys

mutual
/-- Python `==` on JSON values: numbers by exact value with `bool` as 0/1, strings by
    code points, lists in order, dicts as unordered maps. -/
def pyEq : Json → Json → Bool
  | .null, .null => true
  | .bool a, .bool b => a == b
  | .bool a, .num n => Num.eq (boolNum a) n
  | .num n, .bool b => Num.eq n (boolNum b)
  | .num a, .num b => Num.eq a b
  | .str a, .str b => a == b
  | .arr xs, .arr ys => pyEqList xs ys
  | .obj xs, .obj ys => xs.length == ys.length && pyEqKvs xs ys
  | _, _ => false
def pyEqList : List Json → List Json → Bool
  | [], [] => true
  | x :: xs, y :: ys => pyEq x y && pyEqList xs ys
  | _, _ => false
/-- every binding of `xs` has an equal binding in `ys` (dict equality given equal sizes) -/
def pyEqKvs : List (Str × Json) → List (Str × Json) → Bool
  | [], _ => true
  | (k, v) :: xs, ys => lookupWith k (pyEq v) ys && pyEqKvs xs ys
end

/-- `unbool(a) == unbool(b)` for values that are not both lists / both dicts: a boolean
    equals only the same boolean, everything else is Python `==` -/
def unboolEq (a b : Json) : Bool :=
  match a, b with
  | .bool x, .bool y => x == y
  | .bool _, _ => false
  | _, .bool _ => false
  | _, _ => pyEq a b

mutual
/-- `_utils.equal`: recurses into arrays and objects so that booleans never equal numbers
    at any depth -/
def equal : Json → Json → Bool
  | .arr xs, .arr ys => equalList xs ys
  | .obj xs, .obj ys => xs.length == ys.length && equalKvs xs ys
  | .null, .null => true
  | .bool a, .bool b => a == b
  | .num a, .num b => Num.eq a b
  | .str a, .str b => a == b
  | _, _ => false
/-- `len(one) == len(two) and all(equal(i, j) for i, j in zip(one, two))` -/
def equalList : List Json → List Json → Bool
  | [], [] => true
  | x :: xs, y :: ys => equal x y && equalList xs ys
  | _, _ => false
/-- `all(key in two and equal(value, two[key]) for key, value in one.items())` -/
def equalKvs : List (Str × Json) → List (Str × Json) → Bool
  | [], _ => true
  | (k, v) :: xs, ys => lookupWith k (equal v) ys && equalKvs xs ys
end

/-- Python truthiness -/
def truthy : Json → Bool
  | .null => false
  | .bool b => b
  | .num n => !n.isZero
  | .str s => !s.isEmpty
  | .arr xs => !xs.isEmpty
  | .obj kvs => !kvs.isEmpty

/-- `x in xs` for a list -/
def pyIn (x : Json) (xs : List Json) : Bool := xs.any (pyEq x)

/-- hashable after `unbool` (everything but lists and dicts) -/
def hashable : Json → Bool
  | .arr _ => false
  | .obj _ => false
  | _ => true

/-- is some earlier element `equal` to a later one (brute-force path) -/
def hasDup : List Json → Bool
  | [] => false
  | x :: xs => xs.any (equal x) || hasDup xs

/-- the same with the `set`'s notion of sameness on `unbool`-ed hashable elements -/
def hasDupHash : List Json → Bool
  | [] => false
  | x :: xs => xs.any (unboolEq x) || hasDupHash xs

/-- `_utils.uniq`: the hash path (`len(set(unbool(i) …)) == len(container)`, taken iff every
    element is hashable) and the brute-force path (`any(equal(e, i) for i in seen)`) -/
def uniq (xs : List Json) : Bool :=
  if xs.all hashable then !hasDupHash xs else !hasDup xs

/-! ### type predicates (`_types.py`) -/

inductive TyFn where
  | isArray | isBool | isInteger | isNull | isNumber | isObject | isString | isAny
  | isIntegerOrIntFloat                 -- the draft-6/7 lambda
  | legacy (pytypes : List String)      -- `_generate_legacy_type_checks`
  | const (b : Bool)                    -- C16 menu: a user predicate answering a constant
  | foreign (name : String)
deriving Repr, DecidableEq, Inhabited

/-- Python class of a JSON value, with the ABCs the legacy checks can name -/
def pyIsInstance (j : Json) (ty : String) : Bool :=
  match j, ty with
  | .null, "NoneType" => true
  | .bool _, "bool" => true
  | .bool _, "int" => true
  | .bool _, "Number" => true
  | .num (.int _), "int" => true
  | .num (.int _), "Number" => true
  | .num (.flt _ _ _), "float" => true
  | .num (.flt _ _ _), "Number" => true
  | .str _, "str" => true
  | .arr _, "list" => true
  | .obj _, "dict" => true
  | _, "object" => true
  | _, _ => false

def TyFn.apply (f : TyFn) (j : Json) : Bool :=
  match f with
  | .isArray => j.isArr
  | .isBool => j.isBoolJ
  | .isInteger => match j with | .num (.int _) => true | _ => false
  | .isNull => match j with | .null => true | _ => false
  | .isNumber => j.isNumJ
  | .isObject => j.isObj
  | .isString => j.isStr
  | .isAny => true
  | .isIntegerOrIntFloat => match j with | .num n => n.isIntegral | _ => false
  | .legacy tys =>
      if j.isBoolJ && !tys.contains "bool" then false else tys.any (pyIsInstance j)
  | .const b => b
  | .foreign _ => false

end JS
