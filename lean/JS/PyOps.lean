/-
  JS.PyOps — Python primitive operations on JSON values: `==`, truthiness,
  `in`, the `_utils` equality helpers (`unbool`, `equal`, `uniq`), type predicates.
-/
import JS.Num
namespace JS

/-- a boolean seen as the int it is in Python -/
def boolNum (b : Bool) : Num := .int (if b then 1 else 0)

mutual
/-- Python `==` on JSON values: numbers by exact value with `bool` as 0/1, strings by
    code points, lists in order, dicts as unordered maps. -/
def pyEq : Json → Json → Bool
  | .null, .null => true
  | .bool a, .bool b => a == b
  | .bool a, .num n => Num.eq (boolNum a) n
  | .num n, .bool b => Num.eq n (boolNum b)
  | .num a, .num b => Num.eq a b
  | .str a, .str b => a == b
  | .arr xs, .arr ys => pyEqList xs ys
  | .obj xs, .obj ys => xs.length == ys.length && pyEqKvs xs ys
  | _, _ => false
def pyEqList : List Json → List Json → Bool
  | [], [] => true
  | x :: xs, y :: ys => pyEq x y && pyEqList xs ys
  | _, _ => false
/-- every binding of `xs` has an equal binding in `ys` (dict equality given equal sizes) -/
def pyEqKvs : List (Str × Json) → List (Str × Json) → Bool
  | [], _ => true
  | (k, v) :: xs, ys => pyEqLookup k v ys && pyEqKvs xs ys
def pyEqLookup (k : Str) (v : Json) : List (Str × Json) → Bool
  | [] => false
  | (k', v') :: ys => if k' = k then pyEq v v' else pyEqLookup k v ys
end

/-- `unbool`-ed comparison: a *top-level* boolean equals only the same boolean. -/
def equal (a b : Json) : Bool :=
  match a, b with
  | .bool x, .bool y => x == y
  | .bool _, _ => false
  | _, .bool _ => false
  | _, _ => pyEq a b

/-- Python truthiness -/
def truthy : Json → Bool
  | .null => false
  | .bool b => b
  | .num n => !n.isZero
  | .str s => !s.isEmpty
  | .arr xs => !xs.isEmpty
  | .obj kvs => !kvs.isEmpty

/-- `x in xs` for a list -/
def pyIn (x : Json) (xs : List Json) : Bool := xs.any (pyEq x)

/-- hashable after `unbool` (everything but lists and dicts) -/
def hashable : Json → Bool
  | .arr _ => false
  | .obj _ => false
  | _ => true

/-- is some earlier element `equal` to a later one -/
def hasDup : List Json → Bool
  | [] => false
  | x :: xs => xs.any (equal x) || hasDup xs

/-- neighbours of a list compared with `equal` (sort path of `uniq`) -/
def adjDup : List Json → Bool
  | x :: y :: rest => equal x y || adjDup (y :: rest)
  | _ => false

/-- `_utils.uniq`: `some true` = all unique. The sort path consults the `sorted` oracle:
    `sortPerm xs = some none` is `TypeError`, `some (some p)` the permutation. -/
def uniq (sortPerm : List Json → Option (Option (List Nat))) (xs : List Json) : Option Bool :=
  if xs.all hashable then
    some (!hasDup xs)                          -- `len(set(...)) == len(container)`
  else
    match sortPerm xs with
    | none => none                             -- oracle miss
    | some (some p) => some (!adjDup (p.filterMap (xs[·]?)))
    | some none => some (!hasDup xs)           -- brute force: `e in seen`

/-! ### type predicates (`_types.py`) -/

inductive TyFn where
  | isArray | isBool | isInteger | isNull | isNumber | isObject | isString | isAny
  | isIntegerOrIntFloat                 -- the draft-6/7 lambda
  | legacy (pytypes : List String)      -- `_generate_legacy_type_checks`
  | const (b : Bool)                    -- C16 menu: a user predicate answering a constant
  | foreign (name : String)
deriving Repr, DecidableEq, Inhabited

/-- Python class of a JSON value, with the ABCs the legacy checks can name -/
def pyIsInstance (j : Json) (ty : String) : Bool :=
  match j, ty with
  | .null, "NoneType" => true
  | .bool _, "bool" => true
  | .bool _, "int" => true
  | .bool _, "Number" => true
  | .num (.int _), "int" => true
  | .num (.int _), "Number" => true
  | .num (.flt _ _ _), "float" => true
  | .num (.flt _ _ _), "Number" => true
  | .str _, "str" => true
  | .arr _, "list" => true
  | .obj _, "dict" => true
  | _, "object" => true
  | _, _ => false

def TyFn.apply (f : TyFn) (j : Json) : Bool :=
  match f with
  | .isArray => j.isArr
  | .isBool => j.isBoolJ
  | .isInteger => match j with | .num (.int _) => true | _ => false
  | .isNull => match j with | .null => true | _ => false
  | .isNumber => j.isNumJ
  | .isObject => j.isObj
  | .isString => j.isStr
  | .isAny => true
  | .isIntegerOrIntFloat => match j with | .num n => n.isIntegral | _ => false
  | .legacy tys =>
      if j.isBoolJ && !tys.contains "bool" then false else tys.any (pyIsInstance j)
  | .const b => b
  | .foreign _ => false

end JS
