/-
  JS.Resolver — model of `RefResolver`: scope stack, store (`URIDict`), the
  `lru_cache`d `resolve_from_url`, `resolve_remote` with the `cache_remote` switch.
  Retrieval itself (handlers, urlopen) is the oracle `env.fetch`, indexed by the number
  of attempts made so far so that a handler may fail at one time and succeed at another.
-/
import JS.Pointer
namespace JS

/-- `dict.__setitem__` on an association list: replace in place or append -/
def storeSet (k : Str) (v : Json) : List (Str × Json) → List (Str × Json)
  | [] => [(k, v)]
  | (k', v') :: rest => if k' = k then (k, v) :: rest else (k', v') :: storeSet k v rest

/-- `lru_cache` lookup: a hit moves the entry to the front -/
def memoLookup (k : Str) (memo : List (Str × Json)) : Option (Json × List (Str × Json)) :=
  match Json.lookup k memo with
  | some v => some (v, (k, v) :: memo.filter (fun p => p.1 ≠ k))
  | none => none

/-- `lru_cache` insertion after a miss: newest first, evict from the back beyond `cap` -/
def memoInsert (cap : Option Nat) (k : Str) (v : Json) (memo : List (Str × Json)) : List (Str × Json) :=
  match cap with
  | none => (k, v) :: memo
  | some n => ((k, v) :: memo).take n

def fragRes (doc : Json) (frag : Str) : Res Json :=
  match resolveFragment doc frag with
  | some d => .ok d
  | none => .raise .refResolution

/-- `resolve_remote(uri)` after the store missed: ask the world; on success write the store
    iff `cache_remote`. Any exception of the handler becomes `RefResolutionError`. -/
def resolveRemote (env : Env) (uri key : Str) (st : RState) : Res Json × RState :=
  match env.fetch st.clock uri with
  | none => (.miss (.fetch st.clock uri), st)
  | some none =>
      (.raise .refResolution,
        { st with clock := st.clock + 1, fetchLog := st.fetchLog ++ [(uri, false)] })
  | some (some doc) =>
      (.ok doc,
        { st with clock := st.clock + 1, fetchLog := st.fetchLog ++ [(uri, true)],
                  store := if st.cacheRemote then storeSet key doc st.store else st.store })

/-- `resolve_from_url(url)` -/
def resolveFromUrl (env : Env) (url : Str) (st : RState) : Res Json × RState :=
  match env.urldefrag url with
  | none => (.miss (.urldefrag url), st)
  | some (u, frag) =>
    match env.urinorm u with
    | none => (.miss (.urinorm u), st)
    | some key =>
      match Json.lookup key st.store with
      | some doc => (fragRes doc frag, st)
      | none =>
        match resolveRemote env u key st with
        | (.ok doc, st') => (fragRes doc frag, st')
        | (r, st') => (r, st')

/-- `resolve(ref)`: `urljoin(resolution_scope, ref)` then the memoised `resolve_from_url`.
    Exceptions are not memoised. -/
def resolve (env : Env) (ref : Str) (st : RState) : Res (Str × Json) × RState :=
  match env.urljoin st.top ref with
  | none => (.miss (.urljoin st.top ref), st)
  | some url =>
    match memoLookup url st.memo with
    | some (v, memo') => (.ok (url, v), { st with memo := memo' })
    | none =>
      match resolveFromUrl env url st with
      | (.ok v, st') => (.ok (url, v), { st' with memo := memoInsert st'.memoCap url v st'.memo })
      | (.raise e, st') => (.raise e, st')
      | (.miss q, st') => (.miss q, st')

/-- how a `$ref` value is read (`urljoin` behind an `lru_cache`): a string is itself; a list or dict is
    unhashable (TypeError); a truthy scalar makes `urljoin` raise; a FALSY scalar (`None`, `0`, `0.0`,
    `false` — Drafts 3 and 4 do not constrain `$ref`) is the empty reference when the base is non-empty
    (`if not url: return base`) and unresolvable when the base is empty (`if not base: return url`, then
    a non-string reaches `urldefrag` and the retrieval: RefResolutionError) -/
inductive RefReading where
  | ref (r : Str) | emptyOrUnresolvable | typeError

def refReading : Json → RefReading
  | .str r => .ref r
  | .arr _ => .typeError
  | .obj _ => .typeError
  | j => if truthy j then .typeError else .emptyOrUnresolvable

/-- the `$ref` keyword function for the reference string `r`: resolve (which raises before anything
    is pushed), push the URL, descend into the target, pop in `finally`. -/
def kwRefStr (env : Env) (rec : Rec) (r : Str) (inst : Json) : Gen := fun b st =>
  match resolve env r st with
  | (.ok (url, target), st1) => withScope env url (rec inst target) b st1
  | (.raise e, st1) => ⟨[], .raised e, st1⟩
  | (.miss q, st1) => ⟨[], .miss q, st1⟩

/-- the `$ref` keyword function: resolve (which raises before anything is pushed), push the
    URL, descend into the target, pop in `finally`. -/
def kwRef (env : Env) (rec : Rec) (ref : Json) (inst : Json) : Gen := fun b st =>
  match refReading ref with
  | .ref r => kwRefStr env rec r inst b st
  | .emptyOrUnresolvable =>
    if st.top.isEmpty then ⟨[], .raised .refResolution, st⟩ else kwRefStr env rec [] inst b st
  | .typeError => ⟨[], .raised (.crash "TypeError"), st⟩

end JS
