/-
  JS.Spec.Domain — the assumptions about the oracles under which evaluator theorems are stated
  (they describe what is outside the repository: the regex engine, urllib, set iteration order).
-/
import JS.Basic
namespace JS.Spec

/-- every regular expression compiles and every search has an answer (C01/C03's domain:
    "every regular expression compiles in Python `re`") -/
def RegexTotal (env : Env) : Prop := ∀ p s, ∃ b, env.reSearch p s = some (some b)

/-- the URI functions are total -/
def UrlTotal (env : Env) : Prop :=
  (∀ a b, (env.urljoin a b).isSome = true) ∧ (∀ u, (env.urldefrag u).isSome = true) ∧ (∀ u, (env.urinorm u).isSome = true)

/-- iterating a set yields a permutation of it -/
def SetOrderOk (env : Env) : Prop := ∀ xs, ∃ ys, env.setOrder xs = some ys ∧ ys.Perm xs

/-- retrieval always has an outcome (success or failure) -/
def FetchTotal (env : Env) : Prop := ∀ n u, (env.fetch n u).isSome = true

structure EnvTotal (env : Env) : Prop where
  regex : RegexTotal env
  url : UrlTotal env
  setOrder : SetOrderOk env
  fetch : FetchTotal env

end JS.Spec
