/-
  JS.Spec.Equality — JSON data-model equality, as the property C08 states it
  (independent of the implementation model; trusted, meant to be read in a minute).

  * two numbers are equal exactly when they are mathematically equal,
  * a boolean is never equal to a number,
  * strings are equal when their code points are,
  * arrays when they have equal elements in the same order,
  * objects when they have the same keys with equal values, regardless of key order.
-/
import JS.Basic
namespace JS.Spec

/-- the mathematical value of a JSON number as a dyadic rational `m / 2^k`
    (numerator, log2 of the denominator), not normalised -/
def numVal (n : Num) : Int × Nat :=
  match n with
  | .int v => (v, 0)
  | .flt neg m e =>
    let sm : Int := if neg then -(m : Int) else (m : Int)
    if 0 ≤ e then (sm * 2 ^ e.toNat, 0) else (sm, (-e).toNat)

/-- `a / 2^j = b / 2^k` by cross-multiplication -/
def numEq (a b : Num) : Bool :=
  decide ((numVal a).1 * 2 ^ (numVal b).2 = (numVal b).1 * 2 ^ (numVal a).2)

/-- the two objects have the same key sets -/
def sameKeys (xs ys : List (Str × Json)) : Bool :=
  xs.all (fun p => ys.any (fun q => q.1 == p.1)) && ys.all (fun q => xs.any (fun p => p.1 == q.1))

/-- the first member named `k` exists and its value satisfies `p` -/
def hasWith (k : Str) (p : Json → Bool) : List (Str × Json) → Bool
  | [] => false
  | (k', v') :: ys => if k' = k then p v' else hasWith k p ys

mutual
def jsonEq : Json → Json → Bool
  | .null, .null => true
  | .bool a, .bool b => a == b
  | .num a, .num b => numEq a b
  | .str a, .str b => a == b
  | .arr xs, .arr ys => jsonEqList xs ys
  | .obj xs, .obj ys => sameKeys xs ys && jsonSub xs ys
  | _, _ => false
def jsonEqList : List Json → List Json → Bool
  | [], [] => true
  | x :: xs, y :: ys => jsonEq x y && jsonEqList xs ys
  | _, _ => false
/-- every member of `xs` has an equal value under the same key in `ys` -/
def jsonSub : List (Str × Json) → List (Str × Json) → Bool
  | [], _ => true
  | (k, v) :: xs, ys => hasWith k (jsonEq v) ys && jsonSub xs ys
end

/-- keys of an object are pairwise distinct, recursively (what `json.loads` produces) -/
def keysDistinct : List (Str × Json) → Bool
  | [] => true
  | (k, _) :: rest => !rest.any (fun p => p.1 == k) && keysDistinct rest

mutual
def WF : Json → Bool
  | .arr xs => WFList xs
  | .obj kvs => keysDistinct kvs && WFKvs kvs
  | _ => true
def WFList : List Json → Bool
  | [] => true
  | x :: xs => WF x && WFList xs
def WFKvs : List (Str × Json) → Bool
  | [] => true
  | (_, v) :: kvs => WF v && WFKvs kvs
end

/-- no two positions of the array hold equal values -/
def allDistinct : List Json → Bool
  | [] => true
  | x :: xs => !xs.any (jsonEq x) && allDistinct xs

end JS.Spec
