/-
  JS.Spec.Formats — the grammars of the built-in formats, written independently of the model in
  generative style: a string is in the language iff it is the rendering of some numbers / groups.

  * ipv4: RFC 2673 §3.2 "dotted-quad" as required by JSON Schema validation (draft-07 §7.3.4):
    four decimal octets 0–255 without leading zeros, separated by '.'.
  * date: RFC 3339 §5.6 `full-date` = `date-fullyear "-" date-month "-" date-mday` with the
    restrictions of §5.7 (month 01–12, day 01–28/29/30/31 by month and leap year, Appendix C).
    RFC 3339 allows the year 0000.
  * ipv6: RFC 4291 §2.2 text forms 1–3, no zone id (RFC 4007) and no prefix length.
-/
import JS.Spec.Pointer
namespace JS.Spec

/-! ### ipv4 -/

/-- four decimal octets (canonical decimal rendering: no leading zeros) joined by '.' -/
def isIpv4Text (s : Str) : Prop :=
  ∃ a b c d : Nat, a < 256 ∧ b < 256 ∧ c < 256 ∧ d < 256 ∧
    s = decimal a ++ ['.'] ++ decimal b ++ ['.'] ++ decimal c ++ ['.'] ++ decimal d

/-! ### date -/

/-- decimal rendering zero-padded on the left to at least `w` characters -/
def pad (w n : Nat) : Str := List.replicate (w - (decimal n).length) '0' ++ decimal n

/-- RFC 3339 Appendix C -/
def leapYear (y : Nat) : Prop := (y % 4 = 0 ∧ y % 100 ≠ 0) ∨ y % 400 = 0

instance (y : Nat) : Decidable (leapYear y) := by unfold leapYear; exact inferInstance

/-- RFC 3339 §5.7: the maximum `date-mday` of a month (months 1–12) -/
def daysInMonth (y m : Nat) : Nat :=
  if m = 2 then (if leapYear y then 29 else 28)
  else if m = 4 ∨ m = 6 ∨ m = 9 ∨ m = 11 then 30
  else 31

/-- `full-date`: `YYYY-MM-DD` naming a day of the (proleptic Gregorian) calendar -/
def isFullDate (s : Str) : Prop :=
  ∃ y m d : Nat, y ≤ 9999 ∧ 1 ≤ m ∧ m ≤ 12 ∧ 1 ≤ d ∧ d ≤ daysInMonth y m ∧
    s = pad 4 y ++ ['-'] ++ pad 2 m ++ ['-'] ++ pad 2 d

/-! ### ipv6 -/

/-- the hexadecimal digits, either case -/
def hexChars : Str := "0123456789abcdefABCDEF".toList

/-- one 16-bit piece: one to four hexadecimal digits (leading zeros may be dropped or kept) -/
def isHexGroup (g : Str) : Prop := 1 ≤ g.length ∧ g.length ≤ 4 ∧ ∀ c ∈ g, c ∈ hexChars

/-- groups separated by ':' (the empty list renders as the empty string) -/
def colonJoin : List Str → Str
  | [] => []
  | [g] => g
  | g :: g' :: gs => g ++ ':' :: colonJoin (g' :: gs)

/-- the number of 16-bit pieces a trailing dotted quad stands for -/
def tailWidth : Option Str → Nat
  | none => 0
  | some _ => 2

/-- RFC 4291 §2.2.  Form 1: eight groups `x:x:x:x:x:x:x:x`.  Form 2: one `::` standing for one or
    more groups (so that the total is eight), possibly at the start or the end.  Form 3: in either
    form the last two groups may be written as a dotted-quad IPv4 address `d.d.d.d`.
    `pre`/`post` are the groups written before/after the `::`, `tail` the optional dotted quad. -/
def isIpv6Text (s : Str) : Prop :=
  (∃ (gs : List Str) (tail : Option Str),
      (∀ g ∈ gs, isHexGroup g) ∧ (∀ t ∈ tail, isIpv4Text t) ∧
      gs.length + tailWidth tail = 8 ∧
      s = colonJoin (gs ++ tail.toList))
  ∨
  (∃ (pre post : List Str) (tail : Option Str),
      (∀ g ∈ pre, isHexGroup g) ∧ (∀ g ∈ post, isHexGroup g) ∧ (∀ t ∈ tail, isIpv4Text t) ∧
      pre.length + post.length + tailWidth tail ≤ 7 ∧
      s = colonJoin pre ++ [':', ':'] ++ colonJoin (post ++ tail.toList))

end JS.Spec
