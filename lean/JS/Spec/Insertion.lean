/-
  JS.Spec.Insertion — what it means to insert foreign (inert) keys into a schema at ANY subschema
  position, at any depth (C10's quantifier: "inserted at any position of any schema"), and what
  such an insertion necessarily changes in an error report.

  Where the subschemas of a schema object are is the draft's own business: a member's value is a
  schema (`not`, `additionalProperties`, `items` …), an array of schemas (`allOf`, tuple `items`,
  the Draft 3 `type` union …) or a map from names to schemas (`properties`, `patternProperties`,
  `dependencies`); everything else (`enum`, `const`, `default`, values of unknown keys …) is data
  and is left alone.
-/
import JS.Spec.Vocabulary
import JS.Spec.Located
namespace JS.Spec

/-- members whose value is a subschema (when it is an object) -/
def schemaKeys (d : Draft) : List Str :=
  [k "additionalProperties", k "additionalItems", k "items"] ++
  (match d with
   | .d3 => [k "extends"]
   | .d4 => [k "not"]
   | .d6 => [k "not", k "contains", k "propertyNames"]
   | .d7 => [k "not", k "contains", k "propertyNames", k "if", k "then", k "else"])

/-- members whose value is an array of subschemas (non-object elements are data) -/
def schemaArrayKeys (d : Draft) : List Str :=
  [k "items"] ++
  (match d with
   | .d3 => [k "extends", k "type", k "disallow"]
   | _ => [k "allOf", k "anyOf", k "oneOf"])

/-- members whose value maps names to subschemas (non-object values, e.g. the property lists of
    `dependencies`, are data) -/
def schemaMapKeys (_d : Draft) : List Str :=
  [k "properties", k "patternProperties", k "dependencies"]

/-- a key that is foreign to draft `d` wherever it stands: not in the draft's vocabulary, not its id
    key, not `$ref`, none of the sibling names keyword functions consult, and not `required` (which
    Draft 3's `properties` reads inside a property subschema) -/
def Inert (d : Draft) (key : Str) : Prop :=
  lookupS key d.keywords = none ∧ key ≠ d.idKey ∧ key ≠ k "$ref" ∧ key ∉ consulted ∧ key ≠ k "required"

mutual
/-- `Ins d s s'`: `s'` is `s` with inert keys inserted at subschema positions of any depth -/
inductive Ins (d : Draft) : Json → Json → Prop
  | same (j : Json) : Ins d j j
  | obj {kvs kvs' : List (Str × Json)} : InsMembers d kvs kvs' → Ins d (.obj kvs) (.obj kvs')
/-- the members of one schema object: inserted inert members anywhere, the others kept in order -/
inductive InsMembers (d : Draft) : List (Str × Json) → List (Str × Json) → Prop
  | nil : InsMembers d [] []
  | insert {kvs kvs' : List (Str × Json)} (key : Str) (v : Json) :
      Inert d key → InsMembers d kvs kvs' → InsMembers d kvs ((key, v) :: kvs')
  | keep {kvs kvs' : List (Str × Json)} (key : Str) (v v' : Json) :
      InsVal d key v v' → InsMembers d kvs kvs' → InsMembers d ((key, v) :: kvs) ((key, v') :: kvs')
/-- the value of a kept member -/
inductive InsVal (d : Draft) : Str → Json → Json → Prop
  | same (key : Str) (v : Json) : InsVal d key v v
  | schema (key : Str) (v v' : Json) : key ∈ schemaKeys d → Ins d v v' → InsVal d key v v'
  | schemas (key : Str) (vs vs' : List Json) : key ∈ schemaArrayKeys d → InsList d vs vs' →
      InsVal d key (.arr vs) (.arr vs')
  | schemaMap (key : Str) (ms ms' : List (Str × Json)) : key ∈ schemaMapKeys d → InsMap d ms ms' →
      InsVal d key (.obj ms) (.obj ms')
inductive InsList (d : Draft) : List Json → List Json → Prop
  | nil : InsList d [] []
  | cons {vs vs' : List Json} (v v' : Json) : Ins d v v' → InsList d vs vs' → InsList d (v :: vs) (v' :: vs')
inductive InsMap (d : Draft) : List (Str × Json) → List (Str × Json) → Prop
  | nil : InsMap d [] []
  | cons {ms ms' : List (Str × Json)} (name : Str) (v v' : Json) : Ins d v v' → InsMap d ms ms' →
      InsMap d ((name, v) :: ms) ((name, v') :: ms')
end

mutual
/-- what nested insertions necessarily change in an error: renderings of schema text (the message),
    the recorded keyword value and enclosing schema — in the error and throughout its context.
    What remains: the keyword, the recorded instance, both relative paths, the cause, the shape of
    the context tree. -/
def eraseDeep : Err → Err
  | .mk _ info p sp ctx c =>
    .mk ⟨"", []⟩ (info.map fun i => { i with kwVal := .null, schema := .null }) p sp (eraseDeepList ctx) c
def eraseDeepList : List Err → List Err
  | [] => []
  | e :: es => eraseDeep e :: eraseDeepList es
end

end JS.Spec
