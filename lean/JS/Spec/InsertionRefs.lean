/-
  JS.Spec.InsertionRefs — what C10's nested insertion statement needs once schemas contain
  references: the resolver states of the two runs hold `Ins`-related documents, and no reference
  that can be met leads into an inserted member (or, more generally, to a position that insertion
  does not relate as a SCHEMA position).

  A `$ref` is resolved against the resolver state: the store (and the memo of earlier
  resolutions) holds the documents the fragments navigate.  So the run on `s'` (= `s` with
  foreign keys inserted) starts from a state whose store holds the correspondingly modified
  documents: `InsState`.  The guard is `Lands`: every reference string that can be met (`G`),
  joined with any scope, when it addresses a document of the two stores, either fails to resolve
  in both or lands on two values that are again `Ins`-related.  Documents outside the stores
  (retrieved through `env.fetch`) are the same for both runs.
-/
import JS.Spec.Insertion
import JS.Resolver
namespace JS.Spec

/-- every string value of a `$ref` member, anywhere in a document (data included) -/
def refsOf : Json → List Str
  | .arr xs => refsOfList xs
  | .obj kvs => refsOfKvs kvs
  | _ => []
where
  refsOfList : List Json → List Str
    | [] => []
    | x :: xs => refsOf x ++ refsOfList xs
  refsOfKvs : List (Str × Json) → List Str
    | [] => []
    | (key, v) :: rest =>
      (if key = k "$ref" then (match v with | .str r => [r] | _ => []) else []) ++ (refsOf v ++ refsOfKvs rest)

/-- all reference strings occurring in `j` belong to `G` -/
def RefsIn (G : Str → Prop) (j : Json) : Prop := ∀ r ∈ refsOf j, G r

/-- the resolver states of the two runs: the same scope stack, the same bookkeeping (memo
    capacity, `cache_remote`, retrieval clock and log); store and memo hold, under the same keys in
    the same order, documents related by insertion (`InsMap`: pointwise `Ins`) -/
structure InsState (d : Draft) (st st' : RState) : Prop where
  scopes : st.scopes = st'.scopes
  store : InsMap d st.store st'.store
  memo : InsMap d st.memo st'.memo
  memoCap : st.memoCap = st'.memoCap
  cacheRemote : st.cacheRemote = st'.cacheRemote
  clock : st.clock = st'.clock
  fetchLog : st.fetchLog = st'.fetchLog

/-- `G` contains the reference strings of everything the (primed) resolver state holds -/
structure Covered (G : Str → Prop) (st' : RState) : Prop where
  store : ∀ kv ∈ st'.store, RefsIn G kv.2
  memo : ∀ kv ∈ st'.memo, RefsIn G kv.2

/-- … and of every document that can be retrieved -/
def WorldCovered (env : Env) (G : Str → Prop) : Prop :=
  ∀ n u doc, env.fetch n u = some (some doc) → RefsIn G doc

/-- the reference strings a run on `s'` from the state `st'` can meet: those occurring in `s'`, in
    the documents of the store and of the memo, and in retrievable documents (the canonical `G`) -/
def refsMet (env : Env) (s' : Json) (st' : RState) (r : Str) : Prop :=
  r ∈ refsOf s' ∨ (∃ kv ∈ st'.store, r ∈ refsOf kv.2) ∨ (∃ kv ∈ st'.memo, r ∈ refsOf kv.2)
  ∨ ∃ n u doc, env.fetch n u = some (some doc) ∧ r ∈ refsOf doc

/-- two fragment resolutions agree: both fail, or both succeed on `Ins`-related values -/
def LandRel (d : Draft) : Option Json → Option Json → Prop
  | some t, some t' => Ins d t t'
  | none, none => True
  | _, _ => False

/-- **the guard: no reference leads into an inserted member.**  For every reference string `r` of
    `G`, joined with any scope: if the resulting URL addresses a document held by both stores, its
    fragment resolves in both documents to `Ins`-related values, or in neither.  (It fails when a
    pointer leads into an inserted member — the unprimed resolution fails, the primed one succeeds —
    and also when a pointer stops at a position that is not a schema position of the insertion,
    e.g. at a `properties` map inside which keys were inserted.) -/
def Lands (d : Draft) (env : Env) (G : Str → Prop) (store store' : List (Str × Json)) : Prop :=
  ∀ r, G r → ∀ scope url u frag key doc doc',
    env.urljoin scope r = some url → env.urldefrag url = some (u, frag) → env.urinorm u = some key →
    Json.lookup key store = some doc → Json.lookup key store' = some doc' →
    LandRel d (resolveFragment doc frag) (resolveFragment doc' frag)

/-! ### what a pointer reaches in two `Ins`-related documents -/

/-- no object, at any depth, has two members with the same key (Python dicts never have; the
    model's association lists may) -/
def NoDupKeys : Json → Prop
  | .arr xs => NoDupKeysList xs
  | .obj kvs => (kvs.map (·.1)).Nodup ∧ NoDupKeysKvs kvs
  | _ => True
where
  NoDupKeysList : List Json → Prop
    | [] => True
    | x :: xs => NoDupKeys x ∧ NoDupKeysList xs
  NoDupKeysKvs : List (Str × Json) → Prop
    | [] => True
    | (_, v) :: rest => NoDupKeys v ∧ NoDupKeysKvs rest

/-- the values at corresponding positions of two `Ins`-related documents: two schemas related by
    insertion (in particular: the same data), two arrays of such schemas, or two maps of such schemas -/
inductive PosRel (d : Draft) : Json → Json → Prop
  | ins {t t' : Json} : Ins d t t' → PosRel d t t'
  | list {vs vs' : List Json} : InsList d vs vs' → PosRel d (.arr vs) (.arr vs')
  | map {ms ms' : List (Str × Json)} : InsMap d ms ms' → PosRel d (.obj ms) (.obj ms')

end JS.Spec
