/-
  JS.Spec.Located — what it means for an error to locate itself truthfully (C06), written
  against `Spec.ptrGet` (following keys and indices), independent of the evaluator.
-/
import JS.Errors
import JS.Spec.Pointer
import JS.Spec.Equality
namespace JS.Spec

def kReq : Str := "required".toList
def kPN : Str := "propertyNames".toList

/-- no `$ref` key anywhere in the document (a sufficient condition for "reference-free") -/
def noRef : Json → Bool
  | .arr xs => noRefList xs
  | .obj kvs => noRefKvs kvs
  | _ => true
where
  noRefList : List Json → Bool
    | [] => true
    | x :: xs => noRef x && noRefList xs
  noRefKvs : List (Str × Json) → Bool
    | [] => true
    | (k, v) :: rest => k != "$ref".toList && noRef v && noRefKvs rest

mutual
/-- `e` (reported while validating instance `i`) locates itself truthfully in the instance:
    following its relative path from `i` reaches the recorded instance; the errors in its context
    are located relative to that recorded instance. Documented exceptions, kept out of the claim
    exactly as the property says: a Draft 3 `required` error ends its path with the *missing*
    property name (the rest of the path addresses the recorded object, which lacks that name);
    an error under `propertyNames` has a property *name* as its instance. -/
def instLocated (i : Json) : Err → Bool
  | .mk _ info path sp ctx _ =>
    match info with
    | none => false
    | some m =>
      if sp.contains (.key kPN) then true
      else
        ((ptrGet i path == some m.inst)
          || (m.kw == some kReq &&
              (match path.getLast?, ptrGet i path.dropLast with
               | some (.key k), some (.obj kvs) => m.inst == .obj kvs && !Json.hasKey k kvs
               | _, _ => false)))
        && instLocatedList m.inst ctx
def instLocatedList (i : Json) : List Err → Bool
  | [] => true
  | e :: es => instLocated i e && instLocatedList i es
end

mutual
/-- `e` locates itself truthfully in the (reference-free) schema `s` under which it was reported,
    `pre` being the absolute schema path of the enclosing error (empty at top level): the keyword
    is the last element of its schema path, the recorded subschema contains that keyword with the
    recorded value, and following the absolute schema path from `s` reaches that value. An error
    of a `false` schema has no keyword and its path ends at the `false`. Draft 3 `required`
    records the parent schema and the path `…/properties/<name>/required`. -/
def schemaLocated (s : Json) (pre : List PathElem) : Err → Bool
  | .mk _ info _ sp ctx _ =>
    match info with
    | none => false
    | some m =>
      (match m.kw with
       | none => ptrGet s (pre ++ sp) == some (.bool false) && m.schema == .bool false
       | some k =>
         sp.getLast? == some (.key k)
         && ptrGet s (pre ++ sp) == some m.kwVal
         && (m.schema.get? k == some m.kwVal
             || (k == kReq && sp.length ≥ 3)))
      && schemaLocatedList s (pre ++ sp) ctx
def schemaLocatedList (s : Json) (pre : List PathElem) : List Err → Bool
  | [] => true
  | e :: es => schemaLocated s pre e && schemaLocatedList s pre es
end

end JS.Spec
