/-
  JS.Spec.LocatedRef — truthful schema locations in schemas WITH references (C06).

  The loop of `iter_errors` prepends a keyword to an error's schema path, except for `$ref` (and
  `if`): a path through a reference object continues in the DESIGNATED schema without naming the
  reference. Following such a path therefore hops: at a SCHEMA object that carries a string `$ref`
  the walk continues in `Spec.designated …` (the base URI in effect becoming the resolved URL), at
  any other schema object it takes the member named by the next path element — a keyword — (the
  base moving with `id`/`$id` as `Spec.baseInside` says, unless the object has a `$ref` key: next
  to `$ref` the identifier is ignored).

  The walk is schema-aware: the value of a keyword is either a subschema, an array of subschemas
  (the next path element is an index) or — for `properties`, `patternProperties`, `dependencies`,
  `definitions` — a map from names to subschemas (the next path element is a name). Arrays and maps
  of subschemas are containers, not schemas: a member of a `properties` map that happens to be
  named `$ref` or `id` is neither a reference nor an identifier.
-/
import JS.Spec.Located
import JS.Spec.ValidRef
namespace JS.Spec

/-- the keywords whose value is a map from names to subschemas -/
def containerKw (k : Str) : Bool :=
  k == "properties".toList || k == "patternProperties".toList || k == "dependencies".toList
    || k == "definitions".toList

/-- the base URI in effect inside a schema object that is not a reference: next to a `$ref` key
    (whatever its value) the identifier is ignored -/
def baseIn (env : Env) (d : Draft) (top : Str) (kvs : List (Str × Json)) : Str :=
  match lookupJ "$ref" kvs with
  | some _ => top
  | none => baseInside env d top kvs

/-- inside the value `v` of a keyword (`cont`: the keyword's value is a map of subschemas):
    nothing left — the value itself (in `last` mode: the schema it is, followed through a final
    reference); an index into an array of subschemas; a name in a map of subschemas; otherwise `v`
    is itself the subschema. `go` continues the walk at a schema. -/
def navIn (go : Json → List PathElem → Option Json) (last cont : Bool) (v : Json) :
    List PathElem → Option Json
  | [] => if last then go v [] else some v
  | p :: ps =>
    match v, p with
    | .arr xs, .idx j => (xs[j]?).bind fun w => go w ps
    | .obj pkvs, .key name =>
      if cont then (Json.lookup name pkvs).bind fun w => go w ps else go v (p :: ps)
    | _, _ => go v (p :: ps)

/-- follow `path` from the schema `cur` (base URI in effect `top`), hopping through reference
    objects; `n` bounds the number of steps and hops; `last`: also hop when the path is exhausted
    (the `false` schema an error of the `False` schema points at may be designated by a reference) -/
def navR (env : Env) (d : Draft) (base : List (Str × Json)) (last : Bool) :
    Nat → Str → Json → List PathElem → Option Json
  | 0, _, _, _ => none
  | n + 1, top, cur, path =>
    match cur with
    | .obj kvs =>
      let hop : Option (Str × Json) :=
        match lookupJ "$ref" kvs with
        | some (.str r) => designated env base top r
        | _ => none
      match path with
      | [] =>
        (match hop with
         | some (url, t) => if last then navR env d base last n url t [] else some cur
         | none => some cur)
      | p :: ps =>
        (match hop with
         | some (url, t) => navR env d base last n url t (p :: ps)
         | none =>
           match p with
           | .key k =>
             (Json.lookup k kvs).bind fun v =>
               navIn (navR env d base last n (baseIn env d top kvs)) last (containerKw k) v ps
           | .idx _ => none)
    | other => if path.isEmpty then some other else none

/-- the walk reaches `v` (for some number of steps) -/
def NavR (env : Env) (d : Draft) (base : List (Str × Json)) (last : Bool) (top : Str) (s : Json)
    (path : List PathElem) (v : Json) : Prop :=
  ∃ n, navR env d base last n top s path = some v

mutual
/-- `e` locates itself truthfully in the schema `s` (with references) under which it was reported,
    `pre` being the absolute schema path of the enclosing error: the keyword is the last element of
    its schema path, the recorded subschema contains that keyword with the recorded value, and
    following the absolute schema path from `s` — through references — reaches that value; an error
    of a `false` schema has no keyword and its path ends at the `false` (possibly designated).
    Draft 3 `required` records the parent schema and the path `…/properties/<name>/required`: the
    enclosing `properties` reads the value off the property's subschema ITSELF — not through a
    reference that subschema may carry — so there the walk ends at the subschema object (without a
    final hop), which holds the recorded value under `required`. -/
def schemaLocatedR (env : Env) (d : Draft) (base : List (Str × Json)) (top : Str) (s : Json)
    (pre : List PathElem) : Err → Prop
  | .mk _ info _ sp ctx _ =>
    match info with
    | none => False
    | some m =>
      (match m.kw with
       | none => NavR env d base true top s (pre ++ sp) (.bool false) ∧ m.schema = .bool false
       | some k =>
         sp.getLast? = some (.key k)
         ∧ (NavR env d base false top s (pre ++ sp) m.kwVal
            ∨ (k = kReq ∧ sp.length ≥ 3 ∧ ∃ skvs,
                NavR env d base false top s (pre ++ sp.dropLast) (.obj skvs)
                ∧ Json.lookup kReq skvs = some m.kwVal))
         ∧ (m.schema.get? k = some m.kwVal ∨ (k = kReq ∧ sp.length ≥ 3)))
      ∧ schemaLocatedRList env d base top s (pre ++ sp) ctx
def schemaLocatedRList (env : Env) (d : Draft) (base : List (Str × Json)) (top : Str) (s : Json)
    (pre : List PathElem) : List Err → Prop
  | [] => True
  | e :: es => schemaLocatedR env d base top s pre e ∧ schemaLocatedRList env d base top s pre es
end

/-- the world is well-formed: every document the caller supplied or retrieval yields has distinct
    keys, and a resolved URL is absolute with respect to the base it was resolved against (pushing
    it as a scope leaves it unchanged: the references of C02's `RefDomain.ref`) -/
structure WorldOK (env : Env) (base : List (Str × Json)) : Prop where
  wfBase : ∀ k doc, Json.lookup k base = some doc → WF doc = true
  wfFetch : ∀ n u doc, env.fetch n u = some (some doc) → WF doc = true
  joinIdem : ∀ top r url t, designated env base top r = some (url, t) → env.urljoin top url = some url

end JS.Spec
