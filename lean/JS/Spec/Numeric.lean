/-
  JS.Spec.Numeric — the exact mathematical value of a JSON number, in `Rat` (Lean core).
-/
import JS.Basic
namespace JS.Spec

/-- the exact value: an integer, or `± m · 2^e` for a finite binary64 float -/
def val : Num → Rat
  | .int v => (v : Rat)
  | .flt neg m e => (if neg then -1 else 1) * (m : Rat) * (2 : Rat) ^ e

/-- `q` is an integer -/
def isInt (q : Rat) : Prop := ∃ n : Int, q = (n : Rat)

/-- a rational is exactly a finite binary64 value -/
def isDouble (q : Rat) : Prop :=
  ∃ (m : Nat) (e : Int), m < 2 ^ 53 ∧ -1074 ≤ e ∧ e ≤ 971 ∧ (q = (m : Rat) * (2 : Rat) ^ e ∨ q = -((m : Rat) * (2 : Rat) ^ e))

end JS.Spec
