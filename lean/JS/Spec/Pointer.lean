/-
  JS.Spec.Pointer — RFC 6901 JSON Pointer evaluation and its URI-fragment representation
  (RFC 6901 §6: escape `~`→`~0`, `/`→`~1`; then percent-encode per RFC 3986), written
  independently of the implementation model.
-/
import JS.Basic
namespace JS.Spec

/-- decimal rendering of a natural number (canonical array index: no leading zeros) -/
def decimal (n : Nat) : Str := (Nat.toDigits 10 n)

/-- RFC 6901 §4: a reference token addresses member `tok` of an object, or element `n` of an
    array when `tok` is the canonical decimal rendering of `n`; anything else addresses nothing. -/
def ptrStep (doc : Json) (tok : Str) : Option Json :=
  match doc with
  | .obj kvs => Json.lookup tok kvs
  | .arr xs => ((List.range xs.length).find? (fun n => decimal n = tok)).bind (xs[·]?)
  | _ => none

/-- evaluation of a pointer given as its list of (unescaped) reference tokens -/
def ptrEval (doc : Json) : List Str → Option Json
  | [] => some doc
  | t :: ts => (ptrStep doc t).bind (ptrEval · ts)

/-- following a path of keys and indices (what an error's absolute path denotes) -/
def ptrGet (doc : Json) : List PathElem → Option Json
  | [] => some doc
  | .key k :: ps => match doc with
      | .obj kvs => (Json.lookup k kvs).bind (ptrGet · ps)
      | _ => none
  | .idx n :: ps => match doc with
      | .arr xs => (xs[n]?).bind (ptrGet · ps)
      | _ => none

/-- the reference token that addresses a path element -/
def tokenOf : PathElem → Str
  | .key k => k
  | .idx n => decimal n

/-- RFC 6901 §3 escaping of one token -/
def escapeToken (s : Str) : Str :=
  s.flatMap fun c => if c = '~' then ['~', '0'] else if c = '/' then ['~', '1'] else [c]

/-- the string representation of a pointer: each token escaped and prefixed by `/` -/
def pointerString (toks : List Str) : Str := toks.flatMap fun t => '/' :: escapeToken t

def hexDigit (n : Nat) : Char := if n < 10 then Char.ofNat (48 + n) else Char.ofNat (55 + n)

/-- `%XX` for one byte -/
def pctByte (b : UInt8) : Str := ['%', hexDigit (b.toNat / 16), hexDigit (b.toNat % 16)]

/-- RFC 3986 percent-encoding of a string as UTF-8; the encoder may leave any character for
    which `keep` holds unencoded, except `%` itself (and must encode nothing else differently).
    Every concrete fragment encoder is an instance of some `keep`. -/
def pctEncode (keep : Char → Bool) (s : Str) : Str :=
  s.flatMap fun c =>
    if keep c && c != '%' then [c] else (String.utf8EncodeChar c).flatMap pctByte

/-- the URI fragment for a pointer under an encoder -/
def fragmentOf (keep : Char → Bool) (toks : List Str) : Str := pctEncode keep (pointerString toks)

end JS.Spec
