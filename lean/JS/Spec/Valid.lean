/-
  JS.Spec.Valid — what the draft specifications (draft-03, draft-04, draft-06, draft-07
  validation) say about the validity of an instance under a REFERENCE-FREE schema, clause by clause,
  written from the draft texts in a different style from the implementation model: quantifiers over
  the instance's members instead of loops over schema keywords, no error objects, no ordering, no
  state, JSON data-model equality (`Spec.jsonEq`), exact rational arithmetic (`Spec.val`).
  Also `WellShaped`: the shapes of keyword values the drafts' metaschemas prescribe (only as far
  as validation depends on them).  Trusted; validated on every run against the official
  JSON-Schema-Test-Suite bundled with the repository (SPEC channel).
-/
import JS.Drafts
import JS.Spec.Equality
import JS.Spec.Numeric
namespace JS.Spec

def ks (s : String) : Str := s.toList

/-- regular-expression search, as a total relation given by the oracle -/
def rx (env : Env) (p s : Str) : Bool := env.reSearch p s == some (some true)

/-- the JSON type names of a draft and what has them -/
def hasType (d : Draft) (name : Str) (i : Json) : Bool :=
  if name = ks "array" then i.isArr
  else if name = ks "boolean" then i.isBoolJ
  else if name = ks "null" then (match i with | .null => true | _ => false)
  else if name = ks "object" then i.isObj
  else if name = ks "string" then i.isStr
  else if name = ks "number" then i.isNumJ
  else if name = ks "integer" then
    (match i with
     | .num (.int _) => true
     | .num n => (d = .d6 || d = .d7) && decide ((val n).den = 1)   -- drafts 6/7: integral floats are integers
     | _ => false)
  else if name = ks "any" then d = .d3
  else false

def typeNames (d : Draft) : List Str :=
  [ks "array", ks "boolean", ks "integer", ks "null", ks "number", ks "object", ks "string"]
    ++ (if d = .d3 then [ks "any"] else [])

def isNum : Json → Option Num | .num n => some n | _ => none
def lenOf : Json → Option Nat | .num (.int v) => if 0 ≤ v then some v.toNat else none | _ => none

/-- a non-negative integer bound; drafts 6/7 also accept an integral float such as `2.0` -/
def natBound (j : Json) : Option Rat := match j with | .num n => some (val n) | _ => none

def lookupJ (k : String) (kvs : List (Str × Json)) : Option Json := Json.lookup (ks k) kvs

/-- keys of the instance covered by `properties` or matched by some `patternProperties` regex -/
def covered (env : Env) (kvs : List (Str × Json)) (key : Str) : Bool :=
  (match lookupJ "properties" kvs with | some (.obj ps) => Json.hasKey key ps | _ => false)
  || (match lookupJ "patternProperties" kvs with | some (.obj pps) => pps.any (fun p => rx env p.1 key) | _ => false)

def isTrueJ : Json → Bool | .bool true => true | _ => false

/-- is the (draft 3/4) boolean modifier present and `true` -/
def flag (k : String) (kvs : List (Str × Json)) : Bool :=
  match lookupJ k kvs with | some (.bool true) => true | _ => false

/-- Validity. `n` bounds the nesting depth of subschemas (`Spec.valid` supplies the size). -/
def validN (env : Env) (d : Draft) : Nat → Json → Json → Bool
  | 0, _, _ => true
  | n + 1, s, i =>
    match s with
    | .bool b => b
    | .obj kvs =>
      let sub := validN env d n
      let since4 := d ≠ .d3
      let since6 := d = .d6 || d = .d7
      kvs.all fun (k, v) =>
        -- ---- any instance
        if k = ks "type" ∧ since4 then
          (match v with
           | .str t => hasType d t i
           | .arr ts => ts.any (fun t => match t with | .str t => hasType d t i | _ => false)
           | _ => true)
        else if k = ks "type" then      -- draft 3: names or schemas
          (match v with
           | .str t => hasType d t i
           | .arr ts => ts.any (fun t => match t with | .str t => hasType d t i | .obj _ => sub t i | _ => false)
           | _ => true)
        else if k = ks "disallow" ∧ d = .d3 then
          (match v with
           | .str t => !hasType d t i
           | .arr ts => ts.all (fun t => match t with | .str t => !hasType d t i | .obj _ => !sub t i | _ => true)
           | _ => true)
        else if k = ks "extends" ∧ d = .d3 then
          (match v with | .obj _ => sub v i | .arr ss => ss.all (fun s => sub s i) | _ => true)
        else if k = ks "enum" then (match v with | .arr es => es.any (jsonEq i) | _ => true)
        else if k = ks "const" ∧ since6 then jsonEq i v
        else if k = ks "allOf" ∧ since4 then (match v with | .arr ss => ss.all (fun s => sub s i) | _ => true)
        else if k = ks "anyOf" ∧ since4 then (match v with | .arr ss => ss.any (fun s => sub s i) | _ => true)
        else if k = ks "oneOf" ∧ since4 then (match v with | .arr ss => (ss.filter (fun s => sub s i)).length == 1 | _ => true)
        else if k = ks "not" ∧ since4 then !sub v i
        else if k = ks "if" ∧ d = .d7 then
          (if sub v i then (match lookupJ "then" kvs with | some t => sub t i | none => true)
           else (match lookupJ "else" kvs with | some e => sub e i | none => true))
        else
        match i with
        -- ---- numbers
        | .num x =>
          if k = ks "minimum" then
            (match isNum v with
             | some b => if !since6 && flag "exclusiveMinimum" kvs then decide (val b < val x) else decide (val b ≤ val x)
             | none => true)
          else if k = ks "maximum" then
            (match isNum v with
             | some b => if !since6 && flag "exclusiveMaximum" kvs then decide (val x < val b) else decide (val x ≤ val b)
             | none => true)
          else if k = ks "exclusiveMinimum" ∧ since6 then (match isNum v with | some b => decide (val b < val x) | none => true)
          else if k = ks "exclusiveMaximum" ∧ since6 then (match isNum v with | some b => decide (val x < val b) | none => true)
          else if (k = ks "multipleOf" ∧ since4) ∨ (k = ks "divisibleBy" ∧ d = .d3) then
            (match isNum v with | some m => decide ((val x / val m).den = 1) | none => true)
          else true
        -- ---- strings
        | .str str =>
          if k = ks "minLength" then (match natBound v with | some m => decide (m ≤ (str.length : Rat)) | none => true)
          else if k = ks "maxLength" then (match natBound v with | some m => decide ((str.length : Rat) ≤ m) | none => true)
          else if k = ks "pattern" then (match v with | .str p => rx env p str | _ => true)
          else true
        -- ---- arrays
        | .arr xs =>
          if k = ks "items" then
            (match v with
             | .arr ss => (xs.zip ss).all (fun p => sub p.2 p.1)
             | sch => xs.all (fun x => sub sch x))
          else if k = ks "additionalItems" then
            (match lookupJ "items" kvs with
             | some (.arr ss) =>
               (match v with
                | .bool false => decide (xs.length ≤ ss.length)
                | .bool true => true
                | sch => (xs.drop ss.length).all (fun x => sub sch x))
             | _ => true)
          else if k = ks "minItems" then (match natBound v with | some m => decide (m ≤ (xs.length : Rat)) | none => true)
          else if k = ks "maxItems" then (match natBound v with | some m => decide ((xs.length : Rat) ≤ m) | none => true)
          else if k = ks "uniqueItems" then (if isTrueJ v then allDistinct xs else true)
          else if k = ks "contains" ∧ since6 then xs.any (fun x => sub v x)
          else true
        -- ---- objects
        | .obj ms =>
          if k = ks "properties" then
            (match v with
             | .obj ps =>
               ms.all (fun m => match Json.lookup m.1 ps with | some s => sub s m.2 | none => true)
               && (d ≠ .d3 || ps.all (fun p =>
                     match p.2 with
                     | .obj pk => (match lookupJ "required" pk with
                                   | some (.bool true) => Json.hasKey p.1 ms
                                   | _ => true)
                     | _ => true))
             | _ => true)
          else if k = ks "patternProperties" then
            (match v with
             | .obj pps => ms.all (fun m => pps.all (fun p => !rx env p.1 m.1 || sub p.2 m.2))
             | _ => true)
          else if k = ks "additionalProperties" then
            (match v with
             | .bool true => true
             | .bool false => ms.all (fun m => covered env kvs m.1)
             | sch => ms.all (fun m => covered env kvs m.1 || sub sch m.2))
          else if k = ks "required" ∧ since4 then
            (match v with | .arr rs => rs.all (fun r => match r with | .str r => Json.hasKey r ms | _ => true) | _ => true)
          else if k = ks "minProperties" ∧ since4 then (match natBound v with | some m => decide (m ≤ (ms.length : Rat)) | none => true)
          else if k = ks "maxProperties" ∧ since4 then (match natBound v with | some m => decide ((ms.length : Rat) ≤ m) | none => true)
          else if k = ks "dependencies" then
            (match v with
             | .obj ds => ds.all (fun dp =>
                 !Json.hasKey dp.1 ms ||
                 (match dp.2 with
                  | .arr names => names.all (fun r => match r with | .str r => Json.hasKey r ms | _ => true)
                  | .str r => if d = .d3 then Json.hasKey r ms else true
                  | sch => sub sch i))
             | _ => true)
          else if k = ks "propertyNames" ∧ since6 then ms.all (fun m => sub v (.str m.1))
          else true
        | _ => true
    | _ => true

/-- validity of `i` under the reference-free schema `s` in draft `d` -/
def valid (env : Env) (d : Draft) (s i : Json) : Bool := validN env d (s.size + 1) s i

/-! ### shapes -/

/-- an integer bound (drafts 6/7 also accept an integral float such as `2.0`); the bundled
    Draft 3 metaschema puts no minimum on `maxLength`, so negativity is not part of the shape -/
def isNonNegInt (d : Draft) (j : Json) : Bool :=
  match j with
  | .num (.int _) => true
  | .num n => (d = .d6 || d = .d7) && decide ((val n).den = 1)
  | _ => false

def isStrJ : Json → Bool | .str _ => true | _ => false
def isBoolV : Json → Bool | .bool _ => true | _ => false

/-- `s` has the shape the draft's metaschema prescribes, as far as validation depends on it.
    With `refs = false` it moreover contains no reference; with `refs = true` a schema object may
    carry a `$ref` whose value is a string (its other keys are then irrelevant, as the drafts up to
    7 prescribe). `n` bounds the depth. -/
def shapedN (refs : Bool) (d : Draft) : Nat → Json → Bool
  | 0, _ => false
  | n + 1, s =>
    let since4 := d ≠ .d3
    let since6 := d = .d6 || d = .d7
    let sub := shapedN refs d n
    match s with
    | .bool _ => since6
    | .obj kvs =>
      (match lookupJ (if since6 then "$id" else "id") kvs with | some v => isStrJ v | none => true) &&
      match lookupJ "$ref" kvs with
      | some r => refs && isStrJ r
      | none =>
      kvs.all fun (k, v) =>
        if k = ks "type" ∧ since4 then
          (match v with
           | .str t => (typeNames d).contains t
           | .arr ts => ts.all (fun t => match t with | .str t => (typeNames d).contains t | _ => false)
           | _ => false)
        else if (k = ks "type" ∨ k = ks "disallow") ∧ d = .d3 then
          (match v with
           | .str _ => true      -- unknown names raise the documented UnknownType
           | .arr ts => ts.all (fun t => match t with | .str _ => true | .obj _ => sub t | _ => false)
           | _ => false)
        else if k = ks "extends" ∧ d = .d3 then
          (match v with | .obj _ => sub v | .arr ss => ss.all (fun s => s.isObj && sub s) | _ => false)
        else if k = ks "enum" then v.isArr
        else if (k = ks "allOf" ∨ k = ks "anyOf" ∨ k = ks "oneOf") ∧ since4 then
          (match v with | .arr ss => !ss.isEmpty && ss.all sub | _ => false)
        else if k = ks "not" ∧ since4 then sub v
        else if k = ks "if" ∧ d = .d7 then sub v
        else if (k = ks "then" ∨ k = ks "else") ∧ d = .d7 then sub v
        else if k = ks "minimum" ∨ k = ks "maximum" then v.isNumJ
        else if (k = ks "exclusiveMinimum" ∨ k = ks "exclusiveMaximum") then (if since6 then v.isNumJ else isBoolV v)
        else if (k = ks "multipleOf" ∧ since4) ∨ (k = ks "divisibleBy" ∧ d = .d3) then
          (match v with | .num m => decide (0 < val m) | _ => false)
        else if k = ks "minLength" ∨ k = ks "maxLength" ∨ k = ks "minItems" ∨ k = ks "maxItems" then isNonNegInt d v
        else if (k = ks "minProperties" ∨ k = ks "maxProperties") ∧ since4 then isNonNegInt d v
        else if k = ks "pattern" ∨ k = ks "format" then isStrJ v
        else if k = ks "items" then
          (match v with
           | .arr ss => ss.all sub
           | .obj _ => sub v
           | .bool _ => since6
           | _ => false)
        else if k = ks "additionalItems" ∨ k = ks "additionalProperties" then
          (match v with | .bool _ => true | .obj _ => sub v | _ => false)
        else if k = ks "uniqueItems" then isBoolV v
        else if k = ks "contains" ∧ since6 then sub v
        else if k = ks "propertyNames" ∧ since6 then sub v
        else if k = ks "properties" then
          (match v with | .obj ps => ps.all (fun p => (since6 || p.2.isObj) && sub p.2) | _ => false)
        else if k = ks "patternProperties" then
          (match v with | .obj ps => ps.all (fun p => (since6 || p.2.isObj) && sub p.2) | _ => false)
        else if k = ks "required" ∧ since4 then
          (match v with | .arr rs => rs.all isStrJ | _ => false)
        else if k = ks "required" ∧ d = .d3 then isBoolV v
        else if k = ks "dependencies" then
          (match v with
           | .obj ds => ds.all (fun dp =>
               match dp.2 with
               | .arr names => names.all isStrJ
               | .str _ => d = .d3
               | .obj _ => sub dp.2
               | .bool _ => since6
               | _ => false)
           | _ => false)
        else true
    | _ => false

/-- every `multipleOf`/`divisibleBy` value anywhere in the schema is an integer in `1 … 2^53`
    (so that its conversion to binary64 is exact: the exact sub-domain of C09 for which the
    verdict does not depend on floating-point rounding, whatever the instance) -/
def numSafe : Json → Bool
  | .arr xs => numSafeList xs
  | .obj kvs => numSafeKvs kvs
  | _ => true
where
  numSafeList : List Json → Bool
    | [] => true
    | x :: xs => numSafe x && numSafeList xs
  numSafeKvs : List (Str × Json) → Bool
    | [] => true
    | (k, v) :: rest =>
      (if k = ks "multipleOf" ∨ k = ks "divisibleBy" then
         (match v with | .num (.int m) => decide (0 < m ∧ m ≤ 2 ^ 53) | _ => false)
       else true) && numSafe v && numSafeKvs rest

/-- (draft 3) every type name under `type`/`disallow`, at any depth, is one the draft defines;
    unknown names raise the documented `UnknownType` instead of giving a verdict -/
def typesKnown (d : Draft) : Json → Bool
  | .arr xs => typesKnownList d xs
  | .obj kvs => typesKnownKvs d kvs
  | _ => true
where
  typesKnownList (d : Draft) : List Json → Bool
    | [] => true
    | x :: xs => typesKnown d x && typesKnownList d xs
  typesKnownKvs (d : Draft) : List (Str × Json) → Bool
    | [] => true
    | (k, v) :: rest =>
      (if k = ks "type" ∨ k = ks "disallow" then
         (match v with
          | .str t => (typeNames d).contains t
          | .arr ts => ts.all (fun t => match t with | .str t => (typeNames d).contains t | _ => true)
          | _ => true)
       else true) && typesKnown d v && typesKnownKvs d rest

/-- reference-free and well shaped (the domain of C01) -/
def shaped (d : Draft) (s : Json) : Bool := shapedN false d (s.size + 1) s

/-- well shaped, references allowed (the domain of C03) -/
def shapedR (d : Draft) (s : Json) : Bool := shapedN true d (s.size + 1) s


/-! ### the clauses of `validN` and `shapedN`, one schema member at a time

`validN env d (n+1) (.obj kvs) i = kvs.all (clause env d (validN env d n) kvs i)` and the analogous
equation for `shapedN` hold by `rfl` (JS.Proofs.Valid: `validN_succ_obj`, `shapedN_succ_obj`); the
clauses are stated separately so that the specification with references (JS.Spec.ValidRef) can
reuse them with another notion of validity under subschemas. -/

open Lean in
/-- a key as an explicit list of characters (comparisons then never decode a string literal, which
    is slow in the kernel) -/
macro "k!" s:str : term => do
  let cs := s.getString.toList
  let elems := cs.map fun c => Syntax.mkCharLit c
  `(([$(elems.toArray),*] : Str))

def clNum (d : Draft) (kvs : List (Str × Json)) (k : Str) (v : Json) (x : Num) : Bool :=
  if k = k!"minimum" then
    (match isNum v with
     | some b => if !(d = .d6 || d = .d7) && flag "exclusiveMinimum" kvs then decide (val b < val x) else decide (val b ≤ val x)
     | none => true)
  else if k = k!"maximum" then
    (match isNum v with
     | some b => if !(d = .d6 || d = .d7) && flag "exclusiveMaximum" kvs then decide (val x < val b) else decide (val x ≤ val b)
     | none => true)
  else if k = k!"exclusiveMinimum" ∧ (d = .d6 || d = .d7) then (match isNum v with | some b => decide (val b < val x) | none => true)
  else if k = k!"exclusiveMaximum" ∧ (d = .d6 || d = .d7) then (match isNum v with | some b => decide (val x < val b) | none => true)
  else if (k = k!"multipleOf" ∧ d ≠ .d3) ∨ (k = k!"divisibleBy" ∧ d = .d3) then
    (match isNum v with | some m => decide ((val x / val m).den = 1) | none => true)
  else true

def clStr (env : Env) (k : Str) (v : Json) (str : Str) : Bool :=
  if k = k!"minLength" then (match natBound v with | some m => decide (m ≤ (str.length : Rat)) | none => true)
  else if k = k!"maxLength" then (match natBound v with | some m => decide ((str.length : Rat) ≤ m) | none => true)
  else if k = k!"pattern" then (match v with | .str p => rx env p str | _ => true)
  else true

def clArr (d : Draft) (sub : Json → Json → Bool) (kvs : List (Str × Json)) (k : Str) (v : Json)
    (xs : List Json) : Bool :=
  if k = k!"items" then
    (match v with
     | .arr ss => (xs.zip ss).all (fun p => sub p.2 p.1)
     | sch => xs.all (fun x => sub sch x))
  else if k = k!"additionalItems" then
    (match lookupJ "items" kvs with
     | some (.arr ss) =>
       (match v with
        | .bool false => decide (xs.length ≤ ss.length)
        | .bool true => true
        | sch => (xs.drop ss.length).all (fun x => sub sch x))
     | _ => true)
  else if k = k!"minItems" then (match natBound v with | some m => decide (m ≤ (xs.length : Rat)) | none => true)
  else if k = k!"maxItems" then (match natBound v with | some m => decide ((xs.length : Rat) ≤ m) | none => true)
  else if k = k!"uniqueItems" then (if isTrueJ v then allDistinct xs else true)
  else if k = k!"contains" ∧ (d = .d6 || d = .d7) then xs.any (fun x => sub v x)
  else true

def clObj (env : Env) (d : Draft) (sub : Json → Json → Bool) (kvs : List (Str × Json)) (i : Json)
    (k : Str) (v : Json) (ms : List (Str × Json)) : Bool :=
  if k = k!"properties" then
    (match v with
     | .obj ps =>
       ms.all (fun m => match Json.lookup m.1 ps with | some s => sub s m.2 | none => true)
       && (d ≠ .d3 || ps.all (fun p =>
             match p.2 with
             | .obj pk => (match lookupJ "required" pk with
                           | some (.bool true) => Json.hasKey p.1 ms
                           | _ => true)
             | _ => true))
     | _ => true)
  else if k = k!"patternProperties" then
    (match v with
     | .obj pps => ms.all (fun m => pps.all (fun p => !rx env p.1 m.1 || sub p.2 m.2))
     | _ => true)
  else if k = k!"additionalProperties" then
    (match v with
     | .bool true => true
     | .bool false => ms.all (fun m => covered env kvs m.1)
     | sch => ms.all (fun m => covered env kvs m.1 || sub sch m.2))
  else if k = k!"required" ∧ d ≠ .d3 then
    (match v with | .arr rs => rs.all (fun r => match r with | .str r => Json.hasKey r ms | _ => true) | _ => true)
  else if k = k!"minProperties" ∧ d ≠ .d3 then (match natBound v with | some m => decide (m ≤ (ms.length : Rat)) | none => true)
  else if k = k!"maxProperties" ∧ d ≠ .d3 then (match natBound v with | some m => decide ((ms.length : Rat) ≤ m) | none => true)
  else if k = k!"dependencies" then
    (match v with
     | .obj ds => ds.all (fun dp =>
         !Json.hasKey dp.1 ms ||
         (match dp.2 with
          | .arr names => names.all (fun r => match r with | .str r => Json.hasKey r ms | _ => true)
          | .str r => if d = .d3 then Json.hasKey r ms else true
          | sch => sub sch i))
     | _ => true)
  else if k = k!"propertyNames" ∧ (d = .d6 || d = .d7) then ms.all (fun m => sub v (.str m.1))
  else true

/-- the clauses that depend on the type of the instance -/
def clTyped (env : Env) (d : Draft) (sub : Json → Json → Bool) (kvs : List (Str × Json)) (i : Json)
    (k : Str) (v : Json) : Bool :=
  match i with
  | .num x => clNum d kvs k v x
  | .str str => clStr env k v str
  | .arr xs => clArr d sub kvs k v xs
  | .obj ms => clObj env d sub kvs i k v ms
  | _ => true

/-- what `Spec.validN` says about one member `(k, v)` of the schema object `kvs`, with `sub` the
    validity under subschemas -/
def clause (env : Env) (d : Draft) (sub : Json → Json → Bool) (kvs : List (Str × Json)) (i : Json) :
    Str × Json → Bool := fun (k, v) =>
  if k = k!"type" ∧ d ≠ .d3 then
    (match v with
     | .str t => hasType d t i
     | .arr ts => ts.any (fun t => match t with | .str t => hasType d t i | _ => false)
     | _ => true)
  else if k = k!"type" then
    (match v with
     | .str t => hasType d t i
     | .arr ts => ts.any (fun t => match t with | .str t => hasType d t i | .obj _ => sub t i | _ => false)
     | _ => true)
  else if k = k!"disallow" ∧ d = .d3 then
    (match v with
     | .str t => !hasType d t i
     | .arr ts => ts.all (fun t => match t with | .str t => !hasType d t i | .obj _ => !sub t i | _ => true)
     | _ => true)
  else if k = k!"extends" ∧ d = .d3 then
    (match v with | .obj _ => sub v i | .arr ss => ss.all (fun s => sub s i) | _ => true)
  else if k = k!"enum" then (match v with | .arr es => es.any (jsonEq i) | _ => true)
  else if k = k!"const" ∧ (d = .d6 || d = .d7) then jsonEq i v
  else if k = k!"allOf" ∧ d ≠ .d3 then (match v with | .arr ss => ss.all (fun s => sub s i) | _ => true)
  else if k = k!"anyOf" ∧ d ≠ .d3 then (match v with | .arr ss => ss.any (fun s => sub s i) | _ => true)
  else if k = k!"oneOf" ∧ d ≠ .d3 then (match v with | .arr ss => (ss.filter (fun s => sub s i)).length == 1 | _ => true)
  else if k = k!"not" ∧ d ≠ .d3 then !sub v i
  else if k = k!"if" ∧ d = .d7 then
    (if sub v i then (match lookupJ "then" kvs with | some t => sub t i | none => true)
     else (match lookupJ "else" kvs with | some e => sub e i | none => true))
  else clTyped env d sub kvs i k v

/-- what `Spec.shapedN` requires of one member of a schema object (`sub`: shape of subschemas) -/
def shapeClause (d : Draft) (sub : Json → Bool) : Str × Json → Bool := fun (k, v) =>
  if k = k!"type" ∧ d ≠ .d3 then
    (match v with
     | .str t => (typeNames d).contains t
     | .arr ts => ts.all (fun t => match t with | .str t => (typeNames d).contains t | _ => false)
     | _ => false)
  else if (k = k!"type" ∨ k = k!"disallow") ∧ d = .d3 then
    (match v with
     | .str _ => true
     | .arr ts => ts.all (fun t => match t with | .str _ => true | .obj _ => sub t | _ => false)
     | _ => false)
  else if k = k!"extends" ∧ d = .d3 then
    (match v with | .obj _ => sub v | .arr ss => ss.all (fun s => s.isObj && sub s) | _ => false)
  else if k = k!"enum" then v.isArr
  else if (k = k!"allOf" ∨ k = k!"anyOf" ∨ k = k!"oneOf") ∧ d ≠ .d3 then
    (match v with | .arr ss => !ss.isEmpty && ss.all sub | _ => false)
  else if k = k!"not" ∧ d ≠ .d3 then sub v
  else if k = k!"if" ∧ d = .d7 then sub v
  else if (k = k!"then" ∨ k = k!"else") ∧ d = .d7 then sub v
  else if k = k!"minimum" ∨ k = k!"maximum" then v.isNumJ
  else if (k = k!"exclusiveMinimum" ∨ k = k!"exclusiveMaximum") then (if (d = .d6 || d = .d7) then v.isNumJ else isBoolV v)
  else if (k = k!"multipleOf" ∧ d ≠ .d3) ∨ (k = k!"divisibleBy" ∧ d = .d3) then
    (match v with | .num m => decide (0 < val m) | _ => false)
  else if k = k!"minLength" ∨ k = k!"maxLength" ∨ k = k!"minItems" ∨ k = k!"maxItems" then isNonNegInt d v
  else if (k = k!"minProperties" ∨ k = k!"maxProperties") ∧ d ≠ .d3 then isNonNegInt d v
  else if k = k!"pattern" ∨ k = k!"format" then isStrJ v
  else if k = k!"items" then
    (match v with
     | .arr ss => ss.all sub
     | .obj _ => sub v
     | .bool _ => (d = .d6 || d = .d7)
     | _ => false)
  else if k = k!"additionalItems" ∨ k = k!"additionalProperties" then
    (match v with | .bool _ => true | .obj _ => sub v | _ => false)
  else if k = k!"uniqueItems" then isBoolV v
  else if k = k!"contains" ∧ (d = .d6 || d = .d7) then sub v
  else if k = k!"propertyNames" ∧ (d = .d6 || d = .d7) then sub v
  else if k = k!"properties" then
    (match v with | .obj ps => ps.all (fun p => ((d = .d6 || d = .d7) || p.2.isObj) && sub p.2) | _ => false)
  else if k = k!"patternProperties" then
    (match v with | .obj ps => ps.all (fun p => ((d = .d6 || d = .d7) || p.2.isObj) && sub p.2) | _ => false)
  else if k = k!"required" ∧ d ≠ .d3 then
    (match v with | .arr rs => rs.all isStrJ | _ => false)
  else if k = k!"required" ∧ d = .d3 then isBoolV v
  else if k = k!"dependencies" then
    (match v with
     | .obj ds => ds.all (fun dp =>
         match dp.2 with
         | .arr names => names.all isStrJ
         | .str _ => d = .d3
         | .obj _ => sub dp.2
         | .bool _ => (d = .d6 || d = .d7)
         | _ => false)
     | _ => false)
  else true

/-! ### the side conditions of C01 on one schema member (`numSafe`, `typesKnown` read locally) -/

/-- what `numSafe` says about one member -/
def nsMember (k : Str) (v : Json) : Bool :=
  if k = ks "multipleOf" ∨ k = ks "divisibleBy" then
    (match v with | .num (.int m) => decide (0 < m ∧ m ≤ 2 ^ 53) | _ => false)
  else true

/-- what `typesKnown` says about one member -/
def tkMember (d : Draft) (k : Str) (v : Json) : Bool :=
  if k = ks "type" ∨ k = ks "disallow" then
    (match v with
     | .str t => (typeNames d).contains t
     | .arr ts => ts.all (fun t => match t with | .str t => (typeNames d).contains t | _ => true)
     | _ => true)
  else true


/-- every `$ref` member, at any depth, has a string value (C03's proviso: the Draft 3 and 4
    metaschemas do not describe `$ref`) -/
def refsAreStrings : Json → Bool
  | .arr xs => refsAreStringsList xs
  | .obj kvs => refsAreStringsKvs kvs
  | _ => true
where
  refsAreStringsList : List Json → Bool
    | [] => true
    | x :: xs => refsAreStrings x && refsAreStringsList xs
  refsAreStringsKvs : List (Str × Json) → Bool
    | [] => true
    | (k, v) :: rest => (if k = ks "$ref" then isStrJ v else true) && refsAreStrings v && refsAreStringsKvs rest

end JS.Spec
