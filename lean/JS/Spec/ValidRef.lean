/-
  JS.Spec.ValidRef — validity for schemas WITH references (drafts 3/4/6/7, `$ref`, `id`/`$id`).

  `Spec.validN` (JS.Spec.Valid) is the specification for reference-free schemas. This file extends
  it by the two clauses the drafts add for references:
  * a schema object with a string `$ref` is valid for exactly the instances its DESIGNATED schema
    is valid for (keywords next to `$ref` are ignored, as drafts up to 7 prescribe);
  * a schema object with an `id` (`$id` since draft 6) and no `$ref` changes the base URI in
    effect for everything below it (RFC 3986 join).
  The designated schema (`designated`): join the reference with the base URI in effect, split off
  the fragment, take the document the URI stands for — the caller-supplied one (`base`, keyed by
  normalised URI) or else what retrieval yields — and follow the fragment as a JSON pointer
  (RFC 6901: `resolveFragment`, proved equal to `Spec.ptrEval` on every encoded pointer in C14).

  Recursion through references need not terminate, so the definition takes the number `n` of
  nested (sub)schema/reference steps it may take; out of steps it answers `true`. The statement
  that matters is about the limit: `ValidR … b` — from some `n` on the answer is `b`.
-/
import JS.Spec.Valid
import JS.Pointer
namespace JS.Spec

/-- **the designated schema** of the reference string `ref` where the base URI in effect is `top`,
    together with the base URI in effect inside it (the resolved URL) -/
def designated (env : Env) (base : List (Str × Json)) (top ref : Str) : Option (Str × Json) :=
  match env.urljoin top ref with
  | none => none
  | some url =>
    match env.urldefrag url with
    | none => none
    | some (u, frag) =>
      match env.urinorm u with
      | none => none
      | some k =>
        let doc : Option Json :=
          match Json.lookup k base with
          | some d => some d
          | none => (match env.fetch 0 u with | some (some d) => some d | _ => none)
        match doc with
        | none => none
        | some doc => (resolveFragment doc frag).map (fun t => (url, t))

/-- the identifier a schema object declares (a non-empty string under `id` / `$id`) -/
def idOf (d : Draft) (kvs : List (Str × Json)) : Option Str :=
  match lookupJ (if (d = .d6 || d = .d7) then "$id" else "id") kvs with
  | some (.str s) => if s.isEmpty then none else some s
  | _ => none

/-- the base URI in effect inside a schema object without `$ref` -/
def baseInside (env : Env) (d : Draft) (top : Str) (kvs : List (Str × Json)) : Str :=
  match idOf d kvs with
  | some id => (env.urljoin top id).getD top
  | none => top

/-- Validity with references: `n` steps, base URI in effect `top`, schema, instance. -/
def validRN (env : Env) (d : Draft) (base : List (Str × Json)) : Nat → Str → Json → Json → Bool
  | 0, _, _, _ => true
  | n + 1, top, s, i =>
    match s with
    | .bool b => b
    | .obj kvs =>
      match lookupJ "$ref" kvs with
      | some (.str r) =>
        (match designated env base top r with
         | some (url, t) => validRN env d base n url t i
         | none => true)                      -- designates nothing: outside the domain
      | some _ => true                        -- not a string: outside the domain
      | none => kvs.all (clause env d (validRN env d base n (baseInside env d top kvs)) kvs i)
    | _ => true

/-- the limit: from some number of steps on, the answer is `b` -/
def ValidR (env : Env) (d : Draft) (base : List (Str × Json)) (top : Str) (s i : Json) (b : Bool) : Prop :=
  ∃ n, ∀ m, n ≤ m → validRN env d base m top s i = b

/-- The domain AS FIRST GIVEN — too weak in draft 3, see the field `req3` of `RefDomain` below and
    C02 `ref_verdict_agrees_counterexample`: a set `D` of (base URI in effect, schema) pairs that is
    closed under taking subschemas and under designation, each member having the shape its draft
    prescribes. -/
structure RefDomain_statement (env : Env) (d : Draft) (base : List (Str × Json)) (D : Str → Json → Bool) : Prop where
  /-- objects, and in drafts 6 and 7 booleans -/
  kind : ∀ top s, D top s = true → s.isObj = true ∨ ((d = .d6 ∨ d = .d7) ∧ ∃ b, s = .bool b)
  /-- distinct keys; the side conditions of C01 on `multipleOf` operands and draft 3 type names -/
  side : ∀ top s, D top s = true → WF s = true ∧ numSafe s = true ∧ typesKnown d s = true
  /-- the identifier, when present, is a string that joins onto the base -/
  ident : ∀ top kvs, D top (.obj kvs) = true →
    (match lookupJ (if (d = .d6 || d = .d7) then "$id" else "id") kvs with | some v => isStrJ v | none => true) = true
    ∧ ∀ id, idOf d kvs = some id → (env.urljoin top id).isSome = true
  /-- without `$ref`: every member has the shape the draft prescribes, its subschemas being in the
      domain under the base URI in effect inside -/
  shape : ∀ top kvs, D top (.obj kvs) = true → lookupJ "$ref" kvs = none →
    kvs.all (shapeClause d (D (baseInside env d top kvs))) = true
  /-- with `$ref`: a string that designates a schema of the domain; the resolved URL is absolute
      with respect to the base (pushing it as a scope leaves it unchanged) -/
  ref : ∀ top kvs r, D top (.obj kvs) = true → lookupJ "$ref" kvs = some r →
    ∃ rs url t, r = .str rs ∧ designated env base top rs = some (url, t)
      ∧ env.urljoin top url = some url ∧ D url t = true

/-- **The domain** (corrected: the field `req3` is new): a set `D` of (base URI in effect, schema)
    pairs that is closed under taking subschemas and under designation, each member having the shape
    its draft prescribes. (For a finite document — a metaschema — `D` is a finite table and the
    closure is a computation.) -/
structure RefDomain (env : Env) (d : Draft) (base : List (Str × Json)) (D : Str → Json → Bool) : Prop where
  /-- objects, and in drafts 6 and 7 booleans -/
  kind : ∀ top s, D top s = true → s.isObj = true ∨ ((d = .d6 ∨ d = .d7) ∧ ∃ b, s = .bool b)
  /-- distinct keys; the side conditions of C01 on `multipleOf` operands and draft 3 type names -/
  side : ∀ top s, D top s = true → WF s = true ∧ numSafe s = true ∧ typesKnown d s = true
  /-- the identifier, when present, is a string that joins onto the base -/
  ident : ∀ top kvs, D top (.obj kvs) = true →
    (match lookupJ (if (d = .d6 || d = .d7) then "$id" else "id") kvs with | some v => isStrJ v | none => true) = true
    ∧ ∀ id, idOf d kvs = some id → (env.urljoin top id).isSome = true
  /-- without `$ref`: every member has the shape the draft prescribes, its subschemas being in the
      domain under the base URI in effect inside -/
  shape : ∀ top kvs, D top (.obj kvs) = true → lookupJ "$ref" kvs = none →
    kvs.all (shapeClause d (D (baseInside env d top kvs))) = true
  /-- with `$ref`: a string that designates a schema of the domain; the resolved URL is absolute
      with respect to the base (pushing it as a scope leaves it unchanged) -/
  ref : ∀ top kvs r, D top (.obj kvs) = true → lookupJ "$ref" kvs = some r →
    ∃ rs url t, r = .str rs ∧ designated env base top rs = some (url, t)
      ∧ env.urljoin top url = some url ∧ D url t = true
  /-- draft 3: `required` — which the ENCLOSING `properties` reads off a property schema, so it is not
      "ignored next to `$ref`" — is a boolean in every member, also in those that carry a `$ref`
      (for the others `shape` says so already). Without this field the verdict theorem of C02 is
      false in draft 3: the implementation treats any truthy value (`"required": "yes"`) as `true`,
      the specification only `true` itself. -/
  req3 : d = .d3 → ∀ top kvs, D top (.obj kvs) = true →
    ∀ r, lookupJ "required" kvs = some r → isBoolV r = true

theorem RefDomain.toStatement {env : Env} {d : Draft} {base : List (Str × Json)} {D : Str → Json → Bool}
    (h : RefDomain env d base D) : RefDomain_statement env d base D :=
  ⟨h.kind, h.side, h.ident, h.shape, h.ref⟩

/-- **The domain, side conditions read locally** (`RefDomain` asks `numSafe s` and `typesKnown d s` of
    every member, which inspect every key spelled `multipleOf`/`divisibleBy`/`type`/`disallow` at ANY
    depth — also where it is a property NAME, as in every bundled metaschema
    (`"properties": {"multipleOf": {…}}`) — so no `RefDomain` contains a metaschema; the subschemas are
    members of the domain themselves, so it suffices that each member's OWN members are fine).
    Every `RefDomain` is a `RefDomainL` (JS.Proofs.ValidRef `RefDomainL.of`). -/
structure RefDomainL (env : Env) (d : Draft) (base : List (Str × Json)) (D : Str → Json → Bool) : Prop where
  kind : ∀ top s, D top s = true → s.isObj = true ∨ ((d = .d6 ∨ d = .d7) ∧ ∃ b, s = .bool b)
  /-- distinct keys (at every depth) -/
  wf : ∀ top s, D top s = true → WF s = true
  /-- the member's own `multipleOf`/`divisibleBy` operand is an integer in `1 … 2^53` -/
  nsl : ∀ top kvs, D top (.obj kvs) = true → ∀ k v, (k, v) ∈ kvs → nsMember k v = true
  /-- (draft 3) the member's own `type`/`disallow` names are known -/
  tkl : ∀ top kvs, D top (.obj kvs) = true → ∀ k v, (k, v) ∈ kvs → tkMember d k v = true
  ident : ∀ top kvs, D top (.obj kvs) = true →
    (match lookupJ (if (d = .d6 || d = .d7) then "$id" else "id") kvs with | some v => isStrJ v | none => true) = true
    ∧ ∀ id, idOf d kvs = some id → (env.urljoin top id).isSome = true
  shape : ∀ top kvs, D top (.obj kvs) = true → lookupJ "$ref" kvs = none →
    kvs.all (shapeClause d (D (baseInside env d top kvs))) = true
  ref : ∀ top kvs r, D top (.obj kvs) = true → lookupJ "$ref" kvs = some r →
    ∃ rs url t, r = .str rs ∧ designated env base top rs = some (url, t)
      ∧ env.urljoin top url = some url ∧ D url t = true
  req3 : d = .d3 → ∀ top kvs, D top (.obj kvs) = true →
    ∀ r, lookupJ "required" kvs = some r → isBoolV r = true


end JS.Spec
