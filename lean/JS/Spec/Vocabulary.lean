/-
  JS.Spec.Vocabulary — what each draft's specification defines: its validation keywords, the
  keyword function each must be bound to, the JSON types, and which key establishes a base URI.
  Written from the draft texts (draft-03, draft-04 validation, draft-06, draft-07), independent of
  the regenerated tables.
-/
import JS.Keywords
import JS.Drafts
namespace JS.Spec

def k (s : String) : Str := s.toList

/-- keywords shared by all four drafts, with the function every draft binds them to -/
def commonKw : List (Str × KwFn) :=
  [ (k "$ref", .ref), (k "additionalItems", .additionalItems), (k "additionalProperties", .additionalProperties),
    (k "enum", .enum), (k "format", .format), (k "maxItems", .maxItems), (k "maxLength", .maxLength),
    (k "minItems", .minItems), (k "minLength", .minLength), (k "pattern", .pattern),
    (k "patternProperties", .patternProperties), (k "uniqueItems", .uniqueItems) ]

/-- keywords of draft 4 and later that draft 3 lacks -/
def since4 : List (Str × KwFn) :=
  [ (k "allOf", .allOf), (k "anyOf", .anyOf), (k "oneOf", .oneOf), (k "not", .not_),
    (k "dependencies", .dependencies), (k "maxProperties", .maxProperties), (k "minProperties", .minProperties),
    (k "multipleOf", .multipleOf), (k "properties", .properties), (k "required", .required), (k "type", .type) ]

/-- keywords of draft 6 and later -/
def since6 : List (Str × KwFn) :=
  [ (k "const", .const), (k "contains", .contains), (k "propertyNames", .propertyNames),
    (k "exclusiveMaximum", .exclusiveMaximum), (k "exclusiveMinimum", .exclusiveMinimum),
    (k "items", .items), (k "maximum", .maximum), (k "minimum", .minimum) ]

/-- the boolean-modifier forms of drafts 3 and 4 -/
def legacyBounds : List (Str × KwFn) :=
  [ (k "items", .items_draft3_draft4), (k "maximum", .maximum_draft3_draft4), (k "minimum", .minimum_draft3_draft4) ]

def expected : Draft → List (Str × KwFn)
  | .d3 => commonKw ++ legacyBounds ++
      [ (k "dependencies", .dependencies_draft3), (k "disallow", .disallow_draft3), (k "divisibleBy", .multipleOf),
        (k "extends", .extends_draft3), (k "properties", .properties_draft3), (k "type", .type_draft3) ]
  | .d4 => commonKw ++ legacyBounds ++ since4
  | .d6 => commonKw ++ since4 ++ since6
  | .d7 => commonKw ++ since4 ++ since6 ++ [ (k "if", .if_) ]

/-- the JSON types a draft's type checker must know, with the predicate each must denote -/
def expectedTypes : Draft → List (Str × TyFn)
  | .d3 => [ (k "any", .isAny), (k "array", .isArray), (k "boolean", .isBool), (k "integer", .isInteger),
             (k "null", .isNull), (k "number", .isNumber), (k "object", .isObject), (k "string", .isString) ]
  | .d4 => [ (k "array", .isArray), (k "boolean", .isBool), (k "integer", .isInteger),
             (k "null", .isNull), (k "number", .isNumber), (k "object", .isObject), (k "string", .isString) ]
  | _ =>   [ (k "array", .isArray), (k "boolean", .isBool), (k "integer", .isIntegerOrIntFloat),
             (k "null", .isNull), (k "number", .isNumber), (k "object", .isObject), (k "string", .isString) ]

/-- `id` establishes a base URI in drafts 3/4, `$id` in drafts 6/7 -/
def expectedIdKey : Draft → Str
  | .d3 => k "id" | .d4 => k "id" | .d6 => k "$id" | .d7 => k "$id"

/-- the sibling names a keyword function may consult (and nothing else of the enclosing schema) -/
def consulted : List Str :=
  [ k "properties", k "patternProperties", k "items", k "then", k "else", k "exclusiveMinimum", k "exclusiveMaximum" ]

end JS.Spec
