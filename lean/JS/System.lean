/-
  JS.System — several validator objects alive at once (C18).

  The state of the world is a *product*: the module-level registries `Globals` (which validation
  never writes) and one `VState` per validator object.  A `VState` owns everything the real object
  owns: its class tables (`cfg`, copied in when the object was built), its schema, its resolver
  (`rstate`: scope stack, store, `lru_cache`), the handlers of that resolver, the functions of its
  format checker, and its suspended `iter_errors` generators.

  A suspended generator is represented by the instance, the resolver state in which its body
  started to run, and the number of errors pulled from it so far.  `next()` on it *recomputes*
  `eval … (some (pulled+1)) st₀` and returns the error at index `pulled`, or reports how the
  generator ended.  The real generator is resumed instead of recomputed; by the budget-prefix law
  (`JS.Proofs.Prefix`, `lawful_eval`) both give the same errors (`pull_spec` in JS.Proofs.System).

  The resolver state *between* two `next()` calls of a live generator (scopes pushed, `finally`
  blocks pending) is not represented: nothing can observe it, because re-entering a validator
  while one of its own generators is suspended is outside the property ("not claimed") and is
  answered here by the event `busy` without touching the state.  When a generator ends by itself
  (StopIteration or an exception) all its `finally` blocks have run and the resolver is left in
  the final state of the exhaustive run, which becomes the validator's `rstate`; generators of
  one validator are therefore sequential.

  `VState.next` takes and returns ONE validator's `VState`; the schedule-level step `System.step`
  is the only place where a list of validators is touched, and it writes exactly one slot.
-/
import JS.History
import JS.Module
namespace JS

/-- a (possibly suspended) `v.iter_errors(inst)` generator -/
structure Iter where
  inst : Json
  /-- resolver state in which the body started to run (`none`: `next()` was never called; a Python
      generator does nothing when it is created) -/
  st₀ : Option RState := none
  /-- how many errors have been handed out -/
  pulled : Nat := 0
  /-- the generator has ended (StopIteration, or an exception went through it) -/
  closed : Bool := false
deriving Inhabited

def Iter.fresh (inst : Json) : Iter := { inst := inst }

/-- started and not yet ended: suspended at a `yield`, scopes possibly pushed -/
def Iter.live (it : Iter) : Bool := it.st₀.isSome && !it.closed

/-- one validator object -/
structure VState where
  cfg : Cfg                                        -- `VALIDATORS`, `TYPE_CHECKER`, `ID_OF`, `format_checker`
  schema : Json
  fuel : Nat                                       -- recursion bound (model artefact)
  handlers : Nat → Str → Option (Option Json)      -- `resolver.handlers`: this validator's view of the world
  formats : Str → Json → Option FmtRes             -- the functions registered in *its* format checker
  rstate : RState                                  -- `resolver` (scope stack, store, lru cache)
  iters : List Iter
deriving Inhabited

/-- the outside world as this validator sees it: the pure functions (`re`, `urllib.parse`, `sorted`)
    are everybody's, retrieval and format functions are its own -/
def VState.envOf (env : Env) (v : VState) : Env :=
  { env with fetch := v.handlers, fmt := v.formats }

/-- the body of `v.iter_errors(inst)` -/
def VState.gen (env : Env) (impl : FmtImpl) (v : VState) (inst : Json) : Gen :=
  eval (v.envOf env) impl v.cfg v.fuel inst v.schema

/-- is a generator of `v` other than number `j` suspended? -/
def VState.busyExcept (v : VState) (j : Nat) : Bool := (v.iters.eraseIdx j).any Iter.live

/-- what one `next()` shows to the caller -/
inductive Event where
  | error (e : Err)        -- `next()` returned this error
  | done                   -- StopIteration
  | raised (e : Exc)       -- an exception left the generator
  | other (s : Stop)       -- `fuel` (RecursionError) / `miss` (driver artefact)
  | busy                   -- another generator of the same validator is suspended: not claimed
  | noIter                 -- no such validator / generator
deriving Inhabited

def Event.ofStop : Stop → Event
  | .done => .done
  | .raised e => .raised e
  | s => .other s

/-- the `(k+1)`-th `next()` on a generator with body `g` whose body started in `st₀`: the error it
    returns, or why it ended and the resolver state it left -/
def pull (g : Gen) (st₀ : RState) (k : Nat) : Err ⊕ (Stop × RState) :=
  match (g (some (k + 1)) st₀).errs[k]? with
  | some e => .inl e
  | none => .inr ((g (some (k + 1)) st₀).stop, (g (some (k + 1)) st₀).st)

/-- the state a generator starts from / has started from -/
def VState.startOf (v : VState) (it : Iter) : RState := it.st₀.getD v.rstate

/-- **`next(it_j)` on validator `v`.**  Takes and returns only this validator's state; the module
    globals are a read-only argument (in fact `eval` never looks at them: the class tables were
    copied into `cfg` when the object was built — `next_globals_irrelevant`). -/
def VState.next (env : Env) (impl : FmtImpl) (_g : Globals) (v : VState) (j : Nat) : Event × VState :=
  match v.iters[j]? with
  | none => (.noIter, v)
  | some it =>
    if it.closed then (.done, v)
    else if v.busyExcept j then (.busy, v)
    else
      match pull (v.gen env impl it.inst) (v.startOf it) it.pulled with
      | .inl e =>
        (.error e,
         { v with iters := v.iters.set j { it with st₀ := some (v.startOf it), pulled := it.pulled + 1 } })
      | .inr (s, st') =>
        (Event.ofStop s,
         { v with rstate := st',
                  iters := v.iters.set j { it with st₀ := some (v.startOf it), closed := true } })

theorem VState.next_globals_irrelevant (env : Env) (impl : FmtImpl) (g g' : Globals) (v : VState) (j : Nat) :
    VState.next env impl g v j = VState.next env impl g' v j := rfl

/-- a validator driven alone: `next` on its generators `js` in that order -/
def VState.runAlone (env : Env) (impl : FmtImpl) (g : Globals) : VState → List Nat → List Event × VState
  | v, [] => ([], v)
  | v, j :: js =>
    ((VState.next env impl g v j).1 :: (VState.runAlone env impl g (VState.next env impl g v j).2 js).1,
     (VState.runAlone env impl g (VState.next env impl g v j).2 js).2)

/-- `v.iter_errors(inst)`: a new generator object; nothing runs -/
def VState.spawn (v : VState) (inst : Json) : VState := { v with iters := v.iters ++ [Iter.fresh inst] }

/-- `cls(schema, format_checker=fc)` with the resolver the class builds for itself: the only place
    where the globals are read (the resolver's store is seeded from `meta_schemas`) -/
def VState.ofClass (env : Env) (g : Globals) (c : ClassDef) (fc : Option FormatChecker) (schema : Json)
    (handlers : Nat → Str → Option (Option Json)) (formats : Str → Json → Option FmtRes) (fuel : Nat) :
    Res VState :=
  match freshResolver env g c schema with
  | .ok st => .ok { cfg := { c.cfg with formatChecker := fc }, schema := schema, fuel := fuel,
                    handlers := handlers, formats := formats, rstate := st, iters := [] }
  | .raise e => .raise e
  | .miss q => .miss q

/-! ### the system -/

/-- module globals × the validator objects alive -/
structure System where
  globals : Globals
  vals : List VState
deriving Inhabited

/-- a schedule: which generator of which validator is advanced next -/
abbrev Schedule := List (Nat × Nat)

/-- the steps of a schedule addressed to validator `a` -/
def Schedule.only (a : Nat) (sched : Schedule) : Schedule := sched.filter (·.1 = a)

/-- … as the sequence of generator numbers validator `a` is asked to advance -/
def Schedule.proj (a : Nat) (sched : Schedule) : List Nat := (Schedule.only a sched).map (·.2)

/-- one scheduled `next()`: writes slot `s.1` of the validator list and nothing else -/
def System.step (env : Env) (impl : FmtImpl) (σ : System) (s : Nat × Nat) : Event × System :=
  match σ.vals[s.1]? with
  | none => (.noIter, σ)
  | some v =>
    ((VState.next env impl σ.globals v s.2).1,
     { σ with vals := σ.vals.set s.1 (VState.next env impl σ.globals v s.2).2 })

def runSched (env : Env) (impl : FmtImpl) : System → Schedule → List Event × System
  | σ, [] => ([], σ)
  | σ, s :: rest =>
    ((System.step env impl σ s).1 :: (runSched env impl (System.step env impl σ s).2 rest).1,
     (runSched env impl (System.step env impl σ s).2 rest).2)

/-- the events of validator `a` in a run: `evs` is the event list of `sched` -/
def outputsOf (a : Nat) : Schedule → List Event → List Event
  | s :: ss, e :: es => if s.1 = a then e :: outputsOf a ss es else outputsOf a ss es
  | _, _ => []

/-- what `n` successive `next()` calls on a fresh generator show, given its exhaustive run: the
    first `n` errors, then (once) how it ended, then StopIteration for ever -/
def pullsOf (full : Out) (n : Nat) : List Event :=
  (full.errs.take n).map .error ++
    (if n ≤ full.errs.length then []
     else Event.ofStop full.stop :: List.replicate (n - full.errs.length - 1) .done)

/-- the errors among a list of events: what `[e for e in it]` collects -/
def errorsOf : List Event → List Err
  | [] => []
  | .error e :: rest => e :: errorsOf rest
  | _ :: rest => errorsOf rest

end JS
