/-
  jsdriver — line-protocol driver for the correspondence check.
  One case per line: `<channel> <payload tokens>`; one result line per case.
  When the model needs an oracle answer it does not have, the driver prints `ASK <query>`
  and reads `ANS <answer>`, then re-runs the (pure) case.
-/
import JS.Channels
import JS.Chan.CLI
import JS.Chan.SYS
import JS.Chan.DER
open JS JS.Codec

/-- channels living in their own modules (they import JS.Channels) are dispatched here -/
def dispatch (ch : String) (env : Env) (p : Json) : Except Query Json :=
  match ch with
  | "CLI" => JS.Chan.CLI.run env p
  | "SYS" => JS.Chan.SYS.run env p
  | "DER" => JS.Chan.DER.run env p
  | _ => Channels.run ch env p

partial def serve (hin hout : IO.FS.Stream) : IO Unit := do
  let line ← hin.getLine
  if line.isEmpty then return ()
  let line := line.trimAscii.toString
  if line.isEmpty then serve hin hout else
  let toks := (line.splitOn " ").toArray
  let ch := toks[0]!
  match decodeToks (toks.extract 1 toks.size) with
  | none =>
    hout.putStrLn "ERR bad-payload"; hout.flush
    serve hin hout
  | some payload =>
    let rec loop (table : Table) (n : Nat) : IO Unit := do
      match dispatch ch (envOf table) payload with
      | .ok r => hout.putStrLn ("OK " ++ encode r); hout.flush
      | .error q =>
        if n = 0 then hout.putStrLn "ERR too-many-asks"; hout.flush else
        let qj := encQuery q
        hout.putStrLn ("ASK " ++ encode qj); hout.flush
        let ans ← hin.getLine
        let atoks := (ans.trimAscii.toString.splitOn " ").toArray
        match decodeToks (atoks.extract 1 atoks.size) with
        | some a => loop ((qj, a) :: table) (n - 1)
        | none => hout.putStrLn "ERR bad-answer"; hout.flush
    loop (preTable payload) 2000
    serve hin hout
where
  preTable (payload : Json) : Table :=
    match payload.get? "pre".toList with
    | some (.arr ps) => ps.filterMap fun p => match p with | .arr [q, a] => some (q, a) | _ => none
    | _ => []

def main : IO Unit := do
  serve (← IO.getStdin) (← IO.getStdout)
