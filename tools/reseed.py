#!/usr/bin/env python3
"""
reseed.py [name…]  — re-run the checks against the kept seeded changes (all of them by default):
apply seeded/<name>/patch.diff to /repo, run `./check <P> quick` for the property it breaks and for
every check it was run against before, undo, and record the outcome in meta.json (earlier outcomes
move to `earlier_runs`). /repo must be clean; it is clean again afterwards.
"""
import glob
import json
import os
import subprocess
import sys
import time

VERIF = os.path.dirname(os.path.dirname(os.path.abspath(__file__)))


def sh(cmd, cwd=None, timeout=3600):
    p = subprocess.run(cmd, shell=True, cwd=cwd, stdout=subprocess.PIPE, stderr=subprocess.STDOUT, text=True, timeout=timeout)
    return p.returncode, p.stdout


def main():
    names = sys.argv[1:] or sorted(os.path.basename(os.path.dirname(f)) for f in glob.glob(os.path.join(VERIF, "seeded", "*", "meta.json")))
    rc, out = sh("git -C /repo status --porcelain --untracked-files=no")
    if out.strip():
        print("/repo is not clean:", out)
        return 2
    missed = []
    for name in names:
        d = os.path.join(VERIF, "seeded", name)
        meta = json.load(open(os.path.join(d, "meta.json")))
        home = meta.get("breaks_property") or meta.get("property")
        props = [home] + [p for p in meta.get("checks_run", {}) if p != home]
        # RESEED_ALSO=C07,C04 adds checks that were not run against this change before
        props += [p for p in os.environ.get("RESEED_ALSO", "").split(",") if p and p not in props]
        rc, out = sh("git -C /repo apply %s" % os.path.join(d, "patch.diff"))
        if rc != 0:
            print(name, "patch does not apply:", out)
            continue
        runs = {}
        try:
            for p in props:
                t0 = time.time()
                rc, out = sh("./check %s quick" % p, cwd=VERIF, timeout=3000)
                lines = [l for l in out.splitlines() if l.startswith("VIOLATION") or " quick: " in l or "INFRA" in l]
                sig = None
                for l in lines:
                    if l.startswith("VIOLATION") and "replay=" in l:
                        try:
                            r = json.load(open(l.split("replay=")[1].split()[0]))
                            sig = r.get("sig") or ("unproved: " + json.dumps(r.get("broken_theorems_or_modules"))[:200] + " | "
                                                   + str([x.get("diff") for x in r.get("correspondence_disagreements", [])][:2])[:300])
                        except Exception:        # noqa: BLE001
                            pass
                        break
                nv = None
                try:
                    nv = json.load(open(os.path.join(VERIF, "evidence", p + ".json"))).get("violations")
                except Exception:        # noqa: BLE001
                    pass
                runs[p] = {"exit": rc, "lines": lines[:6], "first_signature": sig, "distinct_violation_signatures": nv, "wall_s": round(time.time() - t0, 1)}
        finally:
            sh("git -C /repo checkout -q -- .")
        meta["earlier_runs"] = meta.get("earlier_runs", []) + [{"checks_run": meta.get("checks_run"), "caught_by": meta.get("caught_by")}]
        meta["checks_run"] = runs
        meta["caught_by"] = sorted(p for p, r in runs.items() if r["exit"] == 1)
        json.dump(meta, open(os.path.join(d, "meta.json"), "w"), indent=1)
        print(name, " ".join("%s=%d" % (p, r["exit"]) for p, r in runs.items()), flush=True)
        if not meta["caught_by"]:
            missed.append(name)
    print("missed by every check run:", missed)
    rc, out = sh("git -C /repo status --porcelain --untracked-files=no")
    print("repo clean" if not out.strip() else "REPO NOT CLEAN: " + out)
    return 0


if __name__ == "__main__":
    sys.exit(main())
