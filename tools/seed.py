#!/usr/bin/env python3
"""
seed.py <mutant-dir> <property> [more properties…]  — confirm a seeded change and run the checks on it.

 1. in a scratch worktree (the mutant's own, /tmp/mut/<P>): the patch applies, the existing test suite
    passes with it, demo.py fails with it and passes without it;
 2. apply it to /repo, run `./check <property> quick` for the listed properties, undo it straight afterwards;
 3. keep it under /verif/seeded/<name>/ (patch.diff, demo.py, meta.json with what was run and found).
"""
import json
import os
import shutil
import subprocess
import sys
import time

VERIF = os.path.dirname(os.path.dirname(os.path.abspath(__file__)))


def sh(cmd, cwd=None, env=None, timeout=3600):
    p = subprocess.run(cmd, shell=True, cwd=cwd, env=env, stdout=subprocess.PIPE, stderr=subprocess.STDOUT, text=True, timeout=timeout)
    return p.returncode, p.stdout


def main():
    mdir = os.path.abspath(sys.argv[1])
    props = sys.argv[2:]
    meta = json.load(open(os.path.join(mdir, "meta.json")))
    home = meta.get("property", props[0])
    wt = os.path.join(os.path.dirname(os.path.dirname(mdir)), home)       # the mutant's own scratch worktree
    name = "%s-%s%s" % (home, os.environ.get("SEED_TAG", ""), os.path.basename(mdir))
    patch = os.path.join(mdir, "patch.diff")
    demo = os.path.join(mdir, "demo.py")
    env = dict(os.environ, PYTHONPATH=wt)
    rec = {"confirmed": {}, "checks": {}}
    # 1. confirm in the scratch worktree
    sh("git checkout -q -- .", cwd=wt)
    rc, out = sh("PYTHONPATH=%s /venv/bin/python %s" % (wt, demo), cwd=wt)
    rec["confirmed"]["demo_without_change_exit"] = rc
    rc, out = sh("git apply %s" % patch, cwd=wt)
    if rc != 0:
        print("patch does not apply:", out)
        return 2
    rc, out = sh("PYTHONPATH=%s /venv/bin/python -m pytest -q -p no:cacheprovider jsonschema 2>&1 | tail -1" % wt, cwd=wt)
    rec["confirmed"]["test_suite_with_change"] = out.strip()
    rc, out = sh("PYTHONPATH=%s /venv/bin/python %s" % (wt, demo), cwd=wt)
    rec["confirmed"]["demo_with_change_exit"] = rc
    rec["confirmed"]["demo_with_change_output"] = out[-600:]
    sh("git checkout -q -- .", cwd=wt)
    ok = (rec["confirmed"]["demo_without_change_exit"] == 0 and rec["confirmed"]["demo_with_change_exit"] != 0
          and "passed" in rec["confirmed"]["test_suite_with_change"] and "failed" not in rec["confirmed"]["test_suite_with_change"])
    rec["confirmed"]["ok"] = ok
    print(name, "confirmed" if ok else "NOT CONFIRMED", rec["confirmed"]["test_suite_with_change"])
    if not ok:
        print(json.dumps(rec, indent=1))
        return 1
    # 2. run the checks against it
    rc, out = sh("git -C /repo status --porcelain --untracked-files=no")
    if out.strip():
        print("/repo is not clean:", out)
        return 2
    rc, out = sh("git -C /repo apply %s" % patch)
    if rc != 0:
        print("patch does not apply to /repo:", out)
        return 2
    try:
        for p in props:
            t0 = time.time()
            rc, out = sh("./check %s quick" % p, cwd=VERIF, timeout=3000)
            lines = [l for l in out.splitlines() if l.startswith("VIOLATION") or l.startswith("KNOWN-FINDING") or " quick: " in l or "INFRA" in l]
            sig = None
            for l in lines:
                if l.startswith("VIOLATION") and "replay=" in l:
                    path = l.split("replay=")[1].split()[0]
                    try:
                        d = json.load(open(path))
                        sig = d.get("sig") or ("unproved: " + json.dumps(d.get("broken_theorems_or_modules"))[:200] + " | " + str([x.get("diff") for x in d.get("correspondence_disagreements", [])][:2])[:300])
                    except Exception:
                        pass
                    break
            nv = None
            try:
                nv = json.load(open(os.path.join(VERIF, "evidence", p + ".json"))).get("violations")
            except Exception:        # noqa: BLE001
                pass
            rec["checks"][p] = {"exit": rc, "lines": lines[:6], "first_signature": sig, "distinct_violation_signatures": nv, "wall_s": round(time.time() - t0, 1)}
            print("  ./check %s quick -> exit %d %s" % (p, rc, (sig or "")[:160]))
    finally:
        sh("git -C /repo checkout -q -- .")
    # 3. keep it
    dst = os.path.join(VERIF, "seeded", name)
    os.makedirs(dst, exist_ok=True)
    shutil.copy(patch, os.path.join(dst, "patch.diff"))
    shutil.copy(demo, os.path.join(dst, "demo.py"))
    prev = os.path.join(dst, "meta.json")
    earlier = []
    if os.path.exists(prev):
        try:
            pm = json.load(open(prev))
            earlier = pm.get("earlier_runs", []) + [{"checks_run": pm.get("checks_run"), "caught_by": pm.get("caught_by")}]
        except Exception:        # noqa: BLE001
            pass
    meta["earlier_runs"] = earlier      # runs before the checks were strengthened (most recent last)
    meta["breaks_property"] = home
    meta["confirmed_by_verifier"] = rec["confirmed"]
    meta["checks_run"] = rec["checks"]
    meta["caught_by"] = sorted(p for p, r in rec["checks"].items() if r["exit"] == 1)
    json.dump(meta, open(os.path.join(dst, "meta.json"), "w"), indent=1)
    return 0


if __name__ == "__main__":
    sys.exit(main())
