#!/usr/bin/env python3
"""Regenerates the table of DESIGN.md section 11 from seeded/*/meta.json."""
import glob
import json
import os
import re

ROOT = os.path.dirname(os.path.dirname(os.path.abspath(__file__)))
rows = []
for f in sorted(glob.glob(os.path.join(ROOT, "seeded", "*", "meta.json"))):
    m = json.load(open(f))
    name = os.path.basename(os.path.dirname(f))
    caught = m.get("caught_by", [])
    sigs = []
    for p, r in m.get("checks_run", {}).items():
        if r.get("exit") == 1:
            sigs.append("%s: `%s`" % (p, (r.get("first_signature") or "")[:70].replace("|", "/")))
    missed_before = set()
    for run in m.get("earlier_runs", []):
        for p, r in (run.get("checks_run") or {}).items():
            if r.get("exit") == 0:
                missed_before.add(p)
    missed_now = sorted(p for p, r in m.get("checks_run", {}).items() if r.get("exit") == 0)
    rows.append("| %s | %s | %s | %s | %s |" % (name, (m.get("summary") or "")[:150].replace("|", "/").replace("\n", " "),
                                              (m.get("needs_to_manifest") or "")[:120].replace("|", "/").replace("\n", " "),
                                              "; ".join(sigs) if sigs else "**missed** by " + ", ".join(m.get("checks_run", {})),
                                              ", ".join(sorted(missed_before)) + (" (still: %s)" % ", ".join(missed_now) if missed_now and sigs else "")))
table = "| change | what it does | needs | caught by (first signature) | missed by, before strengthening |\n|---|---|---|---|---|\n" + "\n".join(rows)
path = os.path.join(ROOT, "DESIGN.md")
s = open(path).read()
if "@@SEEDED_TABLE@@" in s:
    s = s.replace("@@SEEDED_TABLE@@", "<!-- seeded-table -->\n" + table + "\n<!-- /seeded-table -->")
else:
    s = re.sub(r"<!-- seeded-table -->.*?<!-- /seeded-table -->", lambda _: "<!-- seeded-table -->\n" + table + "\n<!-- /seeded-table -->", s, flags=re.S)
open(path, "w").write(s)
print("%d seeded changes" % len(rows))
