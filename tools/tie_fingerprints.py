#!/usr/bin/env python3
"""
tie_fingerprints.py — record, next to the tie proofs, the translated source terms they were proved for.

Run ONLY on a clean /repo after `lake build JS.Props.Tie` succeeded: writes
lean/JS/Proofs/TieFingerprints.json = {function: {"sha1": <hash of the JS.Py.Fn term>, "model": "JS.kw…"}}
for every `theorem tie_<function>` in lean/JS/Props/Tie.lean. check.py compares the working tree's
translation with these hashes to attribute a broken JS.Props.Tie to the functions that changed.
"""
import hashlib
import json
import os
import re
import sys

ROOT = os.path.dirname(os.path.dirname(os.path.abspath(__file__)))
sys.path.insert(0, os.path.join(ROOT, "harness"))
import translate  # noqa: E402

src = open(os.path.join(ROOT, "lean", "JS", "Props", "Tie.lean")).read()
models = dict(re.findall(r"theorem tie_(\w+) \(env : Env\).*?=\s*(kw\w+)", src, flags=re.S))
terms = dict(translate.translate_all(os.environ.get("JS_REPO", "/repo")))
out = {}
for fn, model in sorted(models.items()):
    if fn.endswith("_needs_shape"):
        continue
    if fn not in terms or terms[fn].startswith(".unsupported"):
        sys.exit("no translated source for %s" % fn)
    out[fn] = {"sha1": hashlib.sha1(terms[fn].encode()).hexdigest(), "model": "JS." + model}
path = os.path.join(ROOT, "lean", "JS", "Proofs", "TieFingerprints.json")
with open(path, "w") as f:
    json.dump(out, f, indent=1, sort_keys=True)
print("%d functions -> %s" % (len(out), path))
