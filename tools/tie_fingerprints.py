#!/usr/bin/env python3
"""
tie_fingerprints.py — record, next to the tie proofs, the translated source terms they were proved for.

Run ONLY on a clean /repo after `lake build JS.Props.Tie` succeeded: writes
lean/JS/Proofs/TieFingerprints.json = {function: {"sha1": <hash of the JS.Py.Fn term>, "model": "JS.kw…"}}
for every `theorem tie_<function>` in lean/JS/Props/Tie.lean. check.py compares the working tree's
translation with these hashes to attribute a broken JS.Props.Tie to the functions that changed.
"""
import hashlib
import json
import os
import re
import sys

ROOT = os.path.dirname(os.path.dirname(os.path.abspath(__file__)))
sys.path.insert(0, os.path.join(ROOT, "harness"))
import translate  # noqa: E402

src = open(os.path.join(ROOT, "lean", "JS", "Props", "Tie.lean")).read()
found = re.findall(r"theorem (tie2?)_(\w+) \(env : Env\).*?=\s*(kw\w+)", src, flags=re.S)
repo = os.environ.get("JS_REPO", "/repo")
terms = dict(translate.translate_all(repo))
terms2 = dict(translate.translate_all2(repo))
out = {}
for thm, fn, model in sorted(found):
    if fn.endswith("_needs_shape"):
        continue
    t1, t2 = terms.get(fn, ""), terms2.get(fn, "")
    if (thm == "tie" and (not t1 or t1.startswith(".unsupported"))) or (thm == "tie2" and (not t2 or t2.startswith(".unsupported"))):
        sys.exit("no translated source for %s" % fn)
    out[fn] = {"sha1": hashlib.sha1((t1 + "|" + t2).encode()).hexdigest(), "model": "JS." + model, "thm": thm, "term": t1 + "|" + t2}
# the type predicates of _types.py (JS/Props/TieTypes.lean): all tied to the model through TyFn.apply
import translate_types  # noqa: E402
for name, term in translate_types.translate_all(os.environ.get("JS_REPO", "/repo")):
    if term.startswith(".unsupported"):
        sys.exit("no translated source for the predicate %s" % name)
    out["_types." + name] = {"sha1": hashlib.sha1(term.encode()).hexdigest(), "model": "JS.TyFn.apply", "term": term}
# the generator methods of the validator class (JS/Props/TieMethods.lean)
import translate_methods  # noqa: E402
for name, term in translate_methods.translate_all(os.environ.get("JS_REPO", "/repo")):
    if term.startswith(".unsupported"):
        sys.exit("no translated source for the method %s" % name)
    out["_methods." + name] = {"sha1": hashlib.sha1(term.encode()).hexdigest(), "term": term,
                               "model": {"iter_errors": "JS.evalStep", "descend": "JS.descendG"}[name]}
path = os.path.join(ROOT, "lean", "JS", "Proofs", "TieFingerprints.json")
with open(path, "w") as f:
    json.dump(out, f, indent=1, sort_keys=True)
print("%d functions -> %s" % (len(out), path))
