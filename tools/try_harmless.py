#!/usr/bin/env python3
"""
try_harmless.py <dir-with-patch.diff-and-notes.md> <name> [checks…]  — false-alarm probe.

Applies a HARMLESS rewrite of /repo (a refactoring that changes no behaviour; written by an independent
sub-agent, argued in notes.md), runs the quick checks (all twenty by default), undoes it, and keeps
harmless/<name>/{patch.diff, notes.md, result.json}. A check that reports a VIOLATION with a failing input
on such a change is a FALSE ALARM of the machinery (or the rewrite is not harmless: the replay says which);
`no-failing-input-found` means a proof obligation (typically a source tie) no longer checks although no
input was found — what the brief prescribes for a rewrite the proofs do not survive.
"""
import json
import os
import shutil
import subprocess
import sys
import time

VERIF = os.path.dirname(os.path.dirname(os.path.abspath(__file__)))
ALL = ["C%02d" % i for i in range(1, 21)]


def sh(cmd, cwd=None, timeout=3600):
    p = subprocess.run(cmd, shell=True, cwd=cwd, stdout=subprocess.PIPE, stderr=subprocess.STDOUT, text=True, timeout=timeout)
    return p.returncode, p.stdout


def main():
    src, name = os.path.abspath(sys.argv[1]), sys.argv[2]
    checks = sys.argv[3:] or ALL
    rc, out = sh("git -C /repo status --porcelain --untracked-files=no")
    if out.strip():
        print("/repo is not clean")
        return 2
    rc, out = sh("git -C /repo apply %s" % os.path.join(src, "patch.diff"))
    if rc != 0:
        print("patch does not apply:", out)
        return 2
    res = {}
    try:
        rc, out = sh("/venv/bin/python -m pytest -q -p no:cacheprovider jsonschema 2>&1 | tail -1", cwd="/repo")
        res["test_suite"] = out.strip()
        for p in checks:
            t0 = time.time()
            rc, out = sh("./check %s quick" % p, cwd=VERIF)
            lines = [l for l in out.splitlines() if l.startswith("VIOLATION") or " quick: " in l or "INFRA" in l]
            detail = None
            for l in lines:
                if l.startswith("VIOLATION") and "replay=" in l:
                    try:
                        r = json.load(open(l.split("replay=")[1].split()[0]))
                        detail = r.get("sig") or {"broken": [(b.get("module"), b.get("functions"), b.get("errors", [])[:2]) for b in r.get("broken_theorems_or_modules", [])],
                                                  "disagreements": [str(x.get("diff"))[:200] for x in r.get("correspondence_disagreements", [])[:2]]}
                    except Exception:        # noqa: BLE001
                        pass
                    break
            res[p] = {"exit": rc, "no_failing_input": any("no-failing-input-found" in l for l in lines), "detail": detail,
                      "wall_s": round(time.time() - t0, 1)}
            print("  %s exit=%d %s %s" % (p, rc, "no-failing-input-found" if res[p]["no_failing_input"] else "", json.dumps(detail)[:200] if detail else ""), flush=True)
    finally:
        sh("git -C /repo checkout -q -- .")
    dst = os.path.join(VERIF, "harmless", name)
    os.makedirs(dst, exist_ok=True)
    shutil.copy(os.path.join(src, "patch.diff"), dst)
    if os.path.exists(os.path.join(src, "notes.md")):
        shutil.copy(os.path.join(src, "notes.md"), dst)
    json.dump(res, open(os.path.join(dst, "result.json"), "w"), indent=1)
    alarms = [p for p in checks if res.get(p, {}).get("exit") not in (0, None)]
    print(name, "test suite:", res.get("test_suite"), "| alarms:", alarms)
    return 0


if __name__ == "__main__":
    sys.exit(main())
