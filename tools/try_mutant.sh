#!/bin/sh
# try_mutant.sh <seeded-name> <check>...   apply a seeded change to /repo, run the quick checks, undo
cd /verif
git -C /repo apply /verif/seeded/$1/patch.diff || exit 2
shift
for p in "$@"; do ./check $p quick 2>&1 | grep -v "^KNOWN" | tail -3 | cut -c1-300; done
git -C /repo checkout -q -- .
git -C /repo status --short --untracked-files=no
